#!/bin/bash
# Reach of the quick workloads, measured rather than asserted: builds the harness with source-based coverage
# instrumentation (nightly -Cinstrument-coverage), runs the parent process of every quick check once (every fourth pooled job: the
# counters are shared between 16 threads and the instrumented binary is an order of magnitude slower; COVERAGE_THIN=1 for all), merges the
# counters and writes /verif/coverage/SUMMARY.md: per-file line/region coverage of /repo/src plus every line of
# /repo/src that no monitor workload executed.  Not a registered check and not a verdict: it says where the
# monitors have NOT looked, so a clean run is never read as covering code it did not drive.
#   tools/coverage.sh [IDs...]      (default: C01..C19)
set -u
ROOT="$(cd "$(dirname "$0")/.." && pwd)"
export VERIF_ROOT="$ROOT" CARGO_NET_OFFLINE=true
BIN_DIR="$(rustc +nightly --print sysroot)/lib/rustlib/x86_64-unknown-linux-gnu/bin"
TD="$ROOT/harness/target-cov"
RAW="$TD/raw"; rm -rf "$RAW"; mkdir -p "$RAW" "$ROOT/coverage"
cd "$ROOT/harness" || exit 2
RUSTFLAGS="-Cinstrument-coverage" cargo +nightly build --offline --profile verif -p vcheck --target-dir "$TD" >"$TD/build.log" 2>&1 \
  || { echo "coverage build failed"; tail -20 "$TD/build.log"; exit 2; }
IDS=("$@"); [ ${#IDS[@]} -eq 0 ] && IDS=(C01 C02 C03 C04 C05 C06 C07 C08 C09 C10 C11 C12 C13 C14 C15 C16 C17 C18 C19)
# the child stages use the ordinary (uninstrumented) binaries; only the parent workload is counted
export VCHECK_TARGET_DIR="$ROOT/harness/target"
# evidence and replay files of these instrumented runs are scratch, not evidence
export VERIF_EVIDENCE_DIR="$RAW/evidence" VERIF_REPLAY_DIR="$RAW/replays"
for id in "${IDS[@]}"; do
  case "$id" in C07|C17) fl=hooks ;; *) fl=nohooks ;; esac
  export VCHECK_REL_BIN="$ROOT/harness/target-rel-$fl/verifrel/vcheck" VCHECK_REL_FLAVOUR="$fl"
  [ "$id" = C10 ] && export VCHECK_DEV_BIN="$ROOT/harness/target-dev/verifdev/vcheck"
  LLVM_PROFILE_FILE="$RAW/$id-%p-%m.profraw" VERIF_THIN="${COVERAGE_THIN:-4}" "$TD/verif/vcheck" run "$id" --tier quick >"$RAW/$id.out" 2>&1
  echo "$id exit=$? $(grep -c . "$RAW/$id.out") lines of output"
done
"$BIN_DIR/llvm-profdata" merge -sparse "$RAW"/*.profraw -o "$TD/merged.profdata" || exit 2
SRC=$(ls /repo/src/*.rs /repo/src/*/*.rs)
"$BIN_DIR/llvm-cov" report "$TD/verif/vcheck" -instr-profile="$TD/merged.profdata" $SRC 2>/dev/null >"$TD/report.txt"
"$BIN_DIR/llvm-cov" show "$TD/verif/vcheck" -instr-profile="$TD/merged.profdata" -show-line-counts-or-regions=false -show-regions=false -show-expansions=false -show-instantiations=false $SRC 2>/dev/null >"$TD/show.txt"
python3 "$ROOT/tools/coverage_summary.py" "$TD/report.txt" "$TD/show.txt" "${IDS[*]}" >"$ROOT/coverage/SUMMARY.md"
echo "wrote $ROOT/coverage/SUMMARY.md"
