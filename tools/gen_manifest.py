#!/usr/bin/env python3
"""Generates /verif/MANIFEST.json from the table below (single source of truth)."""
import json, os, subprocess
ROOT = os.path.dirname(os.path.dirname(os.path.abspath(__file__)))

# id -> (built, category, technique, level text, level note, design ref)
MODEL = "Trusts my ISO 18004 reference model (harness/oracle, no code or table shared with fast_qr), validated at the start of every run against the Annex I example and >=1920 whole symbols of the independent qrcode crate; payload contents are sampled."
P = {
 "C01": (True, "exploration", "runtime monitoring: independent reference decoder run over recorded builds (boundary-directed workload)",
         "Held on every execution observed: each build result is decoded from its module values only by an independent ISO 18004 reference decoder and compared with the input; every (version, level), (version, mask) and (count-width class, mode) cell is reached in the quick run, thorough adds every length for v<=6 and random lengths elsewhere. Exploration, not proof: payload contents are sampled.",
         MODEL, "5/C01"),
 "C02": (True, "exploration", "runtime monitoring: syndrome oracle over read-out blocks + injected codeword corruption",
         "Every build in all 160 (version, level) cells is read out (unmask, zig-zag, de-interleave by the oracle's own Table 9) and every block must have zero syndromes S_0..S_{ec-1} over table-free GF(256), zero remainder bits and the ISO codeword count; floor(ec/2) random/burst errors per block are injected and must be corrected by a standard BM/Chien/Forney decoder (thorough also damages the module matrix itself).",
         MODEL + " Table 9 is transcribed as two 4x40 tables and cross-checked against qrcode every run.", "5/C02"),
 "C03": (True, "exploration", "runtime monitoring: function-pattern map oracle over the complete (version, level, mask) space",
         "All 1280 (version, level, forced mask) cells are built (configuration space enumerated completely, payloads sampled) and every finder/separator/timing/alignment/dark-module coordinate plus the array tail beyond size^2 is compared with an oracle map built from ISO 6.3 and Annex E.",
         MODEL, "5/C03"),
 "C04": (True, "exploration", "runtime monitoring: BCH(15,5)/BCH(18,6) oracle on both copies + reported-field cross-check, complete (version, level, mask) space",
         "All 1280 cells: both format copies and both version blocks are read at the ISO coordinates and compared with words computed by polynomial division; reported version/level/mask/mode/size must equal what the symbol physically encodes, what was forced, and level Q by default, over all 16 forced/automatic option combinations.",
         MODEL, "5/C04"),
 "C05": (True, "exploration", "runtime monitoring: capacity-arithmetic oracle over EVERY length 0..7200 x mode x level (x every forced version in thorough)",
         "The property's own quantifier is enumerated: every length 0..=7200 in 3 modes x 4 levels with automatic version (quick) and additionally every forced version 1..40 for every length up to capacity+2 (thorough); observed outcome (version chosen / SpecifiedVersion / EncodedData / panic) must equal the outcome derived from 4+count+payload bits <= 8 x data codewords; threshold and capacity-filling symbols are fully reference-decoded. Only payload content is sampled.",
         MODEL + " fast_qr is built with overflow-checks and debug-assertions on, so a wrapped subtraction is observed as a panic.", "5/C05"),
 "C06": (True, "exploration", "runtime monitoring: strict ISO 7.4 bit-stream encoder as oracle over read-out data codewords",
         "Data codewords recovered from module values are compared bit for bit with a strict spec encoder (count widths per version class, group packing, terminator min(4,rest), bit padding, EC/11 pads to capacity) at all lengths leaving 0..12 spare bits, all residues, all 160 cells x 3 modes; thorough runs every length for 17 versions.",
         MODEL, "5/C06"),
 "C07": (True, "exploration", "runtime monitoring via guarded hook: polynomials::structure driven directly, exhaustive single-non-zero-byte basis against table-free GF(256) division",
         "The real division/interleave call site is driven with every position x all 255 values for every (block length, generator degree) pair in use (1.3M calls, basis exhausted in both tiers), all 160 generator selections are compared with prod(x-alpha^i), plus dense/zero-run arrays and observed linearity. Exhaustive on the basis; general contents follow by linearity that is observed on samples rather than proven.",
         "Hook re-exports internal functions unchanged. Oracle arithmetic is shift-and-xor modulo 0x11D, no tables.", "5/C07"),
 "C08": (True, "exploration", "runtime monitoring: pairwise differential of the eight forced-mask builds against ISO Table 10 at every coordinate",
         "For every version (all coordinates up to 177x177) the same payload is built with all eight forced masks and automatically; all 28 pairs must differ exactly where the ISO conditions disagree inside the oracle's data region and nowhere in non-format function modules; un-masking by the pattern named in each symbol's own format information must give one matrix; automatic == forced build of the reported mask.",
         MODEL, "5/C08"),
 "C09": (True, "exploration", "runtime monitoring: classifier oracle over exhaustive short strings + planted-byte long strings",
         "All 256 byte values at every position of strings up to length 8 over three backgrounds, all 3^L class patterns up to L=8, all 65,536 two-byte strings and random long strings with a planted foreign byte are built in automatic mode; mode field, decoded mode indicator and decoded bytes must match an independently spelled 45-character set.",
         MODEL, "5/C09"),
 "C10": (True, "exploration", "runtime monitoring: catch_unwind + overflow/debug assertions + watchdog over hostile inputs; Miri interpreter stage (thorough)",
         "Arbitrary byte strings (0..8000, all-zero, all-FF, pad and mode-indicator look-alikes, all 480 thresholds +-2, every cell at capacity) under all option shapes must return Ok or one of the two documented errors; panics, index errors and integer overflow are observed through catch_unwind in a profile with overflow-checks and debug-assertions; a bounded watchdog decides non-termination; thorough adds ~240 builds+renders under Miri whose outputs must equal the native digests.",
         "Stack exhaustion on tiny stacks and allocator failure are not explored; Miri covers versions 1-4 only (cost).", "5/C10"),
 "C11": (True, "exploration", "runtime monitoring via guarded hook: recorded mask candidates re-scored by an independent penalty model; known finding KF-C11-1 matched by event predicate",
         "Each automatic build's eight recorded candidates must be eight distinct masks over identical placed codewords (and equal the forced-mask builds seen through the API); an independent scan of the documented penalty decides whether the emitted mask is in the argmin (ties and order-equivalent scores accepted). The pinned tree violates this (column terms frozen at the un-masked placement): recorded as KNOWN FINDING KF-C11-1, matched by a predicate over the recorded events; any other way of missing the minimum is a VIOLATION.",
         "Penalty model = the crate's doc comment / the property statement; encoding region = oracle data region.", "5/C11, 6"),
 "C15": (True, "exploration", "runtime monitoring: region-map oracle over labels of every coordinate, complete (version, level, mask) space + callback spy",
         "All 1280 cells: the public type label of every coordinate is compared with the ISO region (either label accepted where alignment patterns sit on the timing line), Data-label count with 8*codewords+remainder, one label map per version across payloads/levels/masks, and the module handed to a Shape::Command callback with QRCode.data.",
         MODEL, "5/C15"),
 "C12": (True, "exploration", "runtime monitoring: strict XML parser + own path interpreter as oracle over random SvgBuilder programs",
         "Random builder programs (margins, 0-5 shape layers over the 6 shapes, array/hex/named colours, image strings with & < > \" ' and non-ASCII) are rendered and the document is parsed by an independent strict XML parser; viewBox, background, per-layer fills and one sub-path per dark module (bounding box inside its unit cell, none in the quiet zone or on light modules) and the parsed href are checked. The pinned tree's href defect was repaired by a fix: commit and is reported again if it returns.",
         "roxmltree as XML authority; sub-path geometry via my own path-data interpreter (arcs sampled at 512 points).", "5/C12, 6"),
 "C13": (True, "exploration", "runtime monitoring: pixel oracle on rendered pixmaps + own PNG reader; AddressSanitizer stage over resvg/tiny-skia (thorough)",
         "Pixmaps for 6 shapes x margins x fit modes x colour pairs are compared at the centre pixel of every cell (>= 4 px/module) and at every pixel for squares at integer scale; side must be size+2*margin or the requested square; to_bytes is decoded by an independent PNG reader (CRC, inflate, unfilter) and compared with the pixmap. Thorough adds 600 renders under ASan+LSan whose outputs must equal the native digests.",
         "Centre sampling is only asserted at >= 4 px/module; semi-transparent colours at tolerance 2/255.", "5/C13"),
 "C14": (True, "exploration", "runtime monitoring: call-history and schedule differential (fresh builder on fresh thread as reference); ThreadSanitizer + multi-threaded Miri stages (thorough)",
         "Random setter/build/render histories on shared builders are compared byte for byte (all 31,329 module bytes + fields, SVG/PNG/terminal output) with fresh builders given only the final option values on fresh threads; 1..16 threads run shuffles of one job list against a single-threaded reference; thorough adds TSan (std instrumented, 16 threads) and Miri with 16 scheduler seeds. Only schedules that actually occurred are decided.",
         "No model: the reference is the crate itself on a fresh builder/thread, so only history- or schedule-dependence is decided here (correctness is C01-C13).", "5/C14"),
 "C16": (True, "exploration", "runtime monitoring: text-decoding oracle over all 40 sizes",
         "to_str() of symbols of all 40 sizes is decoded character by character into (top, bottom) half-rows and compared with the module values surrounded by a one-module light border; line count, width and alphabet are checked.",
         "First half-row above the top border is the filler of the odd row count and is not constrained.", "5/C16"),
 "C17": (True, "exploration", "runtime monitoring via guarded hook: src/wasm.rs executed on the host, option-program differential against the native API under catch_unwind",
         "Random option programs (all 11 setters, repeats, malformed colours, position arrays of any length, NaN/inf, size without position and vice versa) run against the wasm entry points compiled for the host; every call is under catch_unwind (unwind = trap); qr() and qr_svg() must equal the native default build / the SvgBuilder configured from a model of the option object, or be empty on error. Three genuine traps/divergences of the pinned tree were repaired by fix: commits and are reported again if they return.",
         "64-bit host compilation of the unmodified file; wasm32-only behaviour is out of reach in this image.", "5/C17, 6"),
 "C18": (True, "exploration", "runtime monitoring: geometry oracle on the parsed frame/image elements; default-placement space exhaustive",
         "All 2040 default placements (40 versions x 3 frame shapes x margins 0..16) are enumerated: frame centred, integer edges, < 40% of the side, clear of the finders, non-decreasing in the version, image square/centred/not larger; sampled real-valued size/gap/position overrides must be honoured as stated.",
         "Element geometry is read from the XML tree, not from the crate's table; two-decimal rounding of the image element is allowed for.", "5/C18"),
 "C19": (True, "fault_enumeration", "runtime fault injection: LD_PRELOAD libc shim (open*/creat/write) + real file-system faults, each case in a child process",
         "Every fault class named by the property (missing directory, path is a directory, read-only location via EACCES/EROFS, device full via /dev/full and injected ENOSPC at the first and at the k-th write, plus EIO/EDQUOT/EMFILE, short writes, EINTR) is provoked for SVG and PNG output; the shim logs every fault actually delivered; Ok(()) requires the file to equal the in-memory rendering, a delivered hard fault requires Err(_) through ConvertError::from and a normal exit.",
         "Faults are injected at the libc boundary; kernel-level partial failures (e.g. at close/fsync) are not modelled because the code under test does not call them.", "5/C19"),
}
FUZZ = {"C01", "C02", "C04", "C05", "C06", "C09", "C10"}
PLAIN = {"C01", "C02", "C03", "C04", "C05", "C06", "C08", "C09", "C10", "C11", "C15", "C16"}
REL_NOTE = " The symbol-level checks (C01-C06, C08-C11, C15, C16) also run a plain-features child: a release-profile harness whose fast_qr has NO cargo feature at all (no svg, no image, no hooks), the library a downstream crate gets by default. Every run ends with two child stages: (1) release-profile: the same monitors re-run the quick workload (other seeds) against fast_qr compiled as users ship it (opt-level 3, no overflow checks, no debug assertions, and WITHOUT the verif_hooks feature, except for the hook-bound checks C07 and C17); (2) environment: every third job again in a process with a cleared environment refilled from a profile of commonly consulted variables, in a working directory containing decoy files, with a standard error that cannot be written, an allocator that hands out minimally aligned blocks (non-rasterising checks) and yields now and then, under an LD_PRELOAD monitor (harness/shim/envspy.c) that logs every variable consulted through getenv, answers unset ones with a truthy value, skews the wall clock and reports a terminal. Jobs run in a seeded shuffled order; builders are configured through shuffled / repeated setter calls and used builders; the input is handed in through varied carriers (String / Vec with spare capacity / slices), the built symbol is handed to the monitors through varied transports (clone, clone_from into other slots, other thread), and one build in six follows a direct use of the crate's other public API or a refused (panicking, caught) request on the same thread."
ALL = ["C%02d" % i for i in range(1, 20)]

def main():
    hooks_commits = subprocess.run(["git", "-C", "/repo", "log", "--format=%H %s"], capture_output=True, text=True).stdout.splitlines()
    src = [l.split()[0] for l in hooks_commits if " verif hooks:" in l or " verif_hooks:" in l]
    checks = []
    na = []
    for pid in ALL:
        if pid in P and P[pid][0]:
            _, cat, tech, text, note, ref = P[pid]
            checks.append({
                "property_id": pid,
                "quick_cmd": f"./check {pid} quick",
                "thorough_cmd": f"./check {pid} thorough",
                "evidence_file": f"/verif/evidence/{pid}.json",
                "replay_cmd_template": "./check replay {path}",
                "engine": "vcheck",
                "level_claimed": {"category": cat, "text": text, "design_ref": f"DESIGN.md section {ref}"},
                "level_note": note + REL_NOTE,
                "technique": tech + ("; coverage-guided libFuzzer stage judged by the same oracle (thorough)" if pid in FUZZ else "") + "; release-profile child stage (fast_qr as shipped: no overflow checks, no debug assertions, hooks off) and hostile-environment child stage (cleared/refilled environment, getenv/clock/isatty interposition, unwritable stderr, hostile allocator)" + ("; plain-features child stage (fast_qr with no cargo feature at all)" if pid in PLAIN else ""),
            })
        else:
            na.append({"property_id": pid, "reason": "check under construction in this session; the technique applies (see DESIGN.md section 5) and the entry moves to checks once its monitor is built and silent on the unchanged tree"})
    m = {
        "version": 1,
        "setup_cmd": "./setup.sh",
        "hooks": {
            "guard": "cargo feature verif_hooks (off by default)",
            "enable": "harness/vcheck depends on fast_qr = { path = \"/repo\", features = [\"svg\", \"image\", \"verif_hooks\"] }; every ./check run does cargo build, which rebuilds fast_qr from /repo's working tree",
            "baseline_off_cmd": "cd /repo && (cargo nextest run --workspace --no-fail-fast --offline || cargo test --workspace --lib --no-fail-fast --offline)",
            "source_commits": src,
            "add_only": True,
        },
        "engines": [
            {"name": "vcheck", "path": "harness/vcheck", "serves_properties": [c["property_id"] for c in checks],
             "kind_free_text": "(thorough tier also runs harness/fuzz, a libFuzzer target linking the real fast_qr and the oracle crate, and the sanit workload under Miri/TSan/ASan) Rust harness: executes the real fast_qr (path dependency on /repo, profile with overflow checks and debug assertions) under generated workloads on 16 worker threads; per-property monitors compare recorded executions with an independent ISO 18004 reference model (harness/oracle); sanitizer stages (Miri/TSan/ASan) and an LD_PRELOAD I/O fault injector are driven from the same binary"},
        ],
        "checks": checks,
        "not_applicable": na,
        "notes": "./check builds the harness twice from /repo's working tree (profile verif with the hooks; profile verifrel without them, or with them for C07/C17), in parallel. Exit codes: 0 held on everything observed, 1 VIOLATION, 2 INCONCLUSIVE (never on the unchanged tree). VERIF_SEED varies payloads/histories/schedules; deterministic boundary sweeps do not depend on it.",
    }
    with open(os.path.join(ROOT, "MANIFEST.json"), "w") as f:
        json.dump(m, f, indent=1)
        f.write("\n")
    print("wrote MANIFEST.json:", len(checks), "checks,", len(na), "not_applicable")

if __name__ == "__main__":
    main()
