#!/usr/bin/env python3
"""Generates /verif/MANIFEST.json from the table below (single source of truth)."""
import json, os, subprocess
ROOT = os.path.dirname(os.path.dirname(os.path.abspath(__file__)))

# id -> (built, category, technique, level text, level note, design ref)
P = {
 "C01": (True, "exploration", "runtime monitoring: reference-decoder oracle over recorded builds (boundary-directed workload)",
         "Held on every execution observed: each build result is decoded from its module values by an independent ISO 18004 reference decoder and compared with the input; every (version, level), (version, mask) and (count-width class, mode) cell is reached in the quick run. Payload contents are sampled, so this is exploration, not proof.",
         "Trusts my ISO reference model (validated every run against >=1920 symbols of the independent qrcode crate and the Annex I example).", "5/C01"),
}
ALL = ["C%02d" % i for i in range(1, 20)]

def main():
    hooks_commits = subprocess.run(["git", "-C", "/repo", "log", "--format=%H %s"], capture_output=True, text=True).stdout.splitlines()
    src = [l.split()[0] for l in hooks_commits if " verif hooks:" in l]
    checks = []
    na = []
    for pid in ALL:
        if pid in P and P[pid][0]:
            _, cat, tech, text, note, ref = P[pid]
            checks.append({
                "property_id": pid,
                "quick_cmd": f"./check {pid} quick",
                "thorough_cmd": f"./check {pid} thorough",
                "evidence_file": f"/verif/evidence/{pid}.json",
                "replay_cmd_template": "./check replay {path}",
                "engine": "vcheck",
                "level_claimed": {"category": cat, "text": text, "design_ref": f"DESIGN.md section {ref}"},
                "level_note": note,
                "technique": tech,
            })
        else:
            na.append({"property_id": pid, "reason": "check under construction in this session; the technique applies (see DESIGN.md section 5) and the entry moves to checks once its monitor is built and silent on the unchanged tree"})
    m = {
        "version": 1,
        "setup_cmd": "./setup.sh",
        "hooks": {
            "guard": "cargo feature verif_hooks (off by default)",
            "enable": "harness/vcheck depends on fast_qr = { path = \"/repo\", features = [\"svg\", \"image\", \"verif_hooks\"] }; every ./check run does cargo build, which rebuilds fast_qr from /repo's working tree",
            "baseline_off_cmd": "cd /repo && (cargo nextest run --workspace --no-fail-fast --offline || cargo test --workspace --lib --no-fail-fast --offline)",
            "source_commits": src,
            "add_only": True,
        },
        "engines": [
            {"name": "vcheck", "path": "harness/vcheck", "serves_properties": [c["property_id"] for c in checks],
             "kind_free_text": "Rust harness: executes the real fast_qr (path dependency on /repo, profile with overflow checks and debug assertions) under generated workloads on 16 worker threads; per-property monitors compare recorded executions with an independent ISO 18004 reference model (harness/oracle); sanitizer stages (Miri/TSan/ASan) and an LD_PRELOAD I/O fault injector are driven from the same binary"},
        ],
        "checks": checks,
        "not_applicable": na,
        "notes": "Exit codes: 0 held on everything observed, 1 VIOLATION, 2 INCONCLUSIVE (never on the unchanged tree). VERIF_SEED varies payloads/histories/schedules; deterministic boundary sweeps do not depend on it.",
    }
    with open(os.path.join(ROOT, "MANIFEST.json"), "w") as f:
        json.dump(m, f, indent=1)
        f.write("\n")
    print("wrote MANIFEST.json:", len(checks), "checks,", len(na), "not_applicable")

if __name__ == "__main__":
    main()
