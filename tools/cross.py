#!/usr/bin/env python3
"""Cross matrix: run the quick command of EVERY registered check against every seeded change.

usage: cross.py [--seeds C01,C02-r2,...] [--checks C01,...] [--jobs N] [--out seeded/CROSS.json]

For each seeded change: scratch worktree of /repo under /tmp/cross-<pid> (removed afterwards), patch
applied, one harness build per profile (VERIF_REPO override), then every requested check at the
quick tier with evidence/replay directories redirected to scratch. Records exit codes and the
first VIOLATION / INCONCLUSIVE line. Nothing under /repo or /verif/evidence is touched.
"""
import argparse, glob, json, os, re, shutil, subprocess, sys, time
from concurrent.futures import ThreadPoolExecutor
VERIF = os.path.dirname(os.path.dirname(os.path.abspath(__file__)))
SCR = f"/tmp/cross-{os.getpid()}"  # per process: concurrent runs must not remove each other's worktrees
ALL = [f"C{i:02d}" for i in range(1, 20)]

def sh(cmd, cwd=None, env=None, timeout=3600):
    e = dict(os.environ); e.update(env or {})
    p = subprocess.run(cmd, shell=True, cwd=cwd, env=e, capture_output=True, text=True, timeout=timeout)
    return p.returncode, p.stdout + p.stderr

def one(seed, checks, threads, kind="seeded"):
    wt = f"{SCR}/{seed}"
    sh(f"git -C /repo worktree remove --force {wt}"); shutil.rmtree(wt, ignore_errors=True)
    rc, out = sh(f"git -C /repo worktree add --detach {wt} HEAD")
    if rc != 0:
        return seed, {"error": out[-300:]}
    res = {}
    try:
        rc, out = sh(f"git apply {VERIF}/{kind}/{seed}/patch.diff", cwd=wt)
        if rc != 0:
            return seed, {"error": "patch does not apply: " + out[-300:]}
        tdir = f"{VERIF}/harness/target-mut-cross-{seed}"
        env = {"VERIF_REPO": wt, "VERIF_TARGET_DIR": tdir, "VERIF_EVIDENCE_DIR": f"{SCR}/ev-{seed}", "VERIF_REPLAY_DIR": f"{SCR}/rp-{seed}", "VERIF_THREADS": str(threads)}
        for c in checks:
            t0 = time.time()
            rc, out = sh(f"./check {c} quick", cwd=VERIF, env=env)
            first = next((l for l in out.splitlines() if l.startswith("VIOLATION")), "")
            inc = next((l for l in out.splitlines() if l.startswith("INCONCLUSIVE")), "")
            kind = re.search(r"kind=(\S+)", first)
            res[c] = {"exit": rc, "kind": kind.group(1) if kind else "", "inconclusive": inc[:200], "secs": round(time.time() - t0, 1)}
    finally:
        sh(f"git -C /repo worktree remove --force {wt}"); shutil.rmtree(wt, ignore_errors=True)
        for d in (f"{VERIF}/harness/target-mut-cross-{seed}", f"{VERIF}/harness/target-mut-cross-{seed}-rel-nohooks", f"{VERIF}/harness/target-mut-cross-{seed}-rel-hooks", f"{VERIF}/harness/target-mut-cross-{seed}-fuzz", f"{VERIF}/harness/target-mut-cross-{seed}-dev", f"{VERIF}/harness/target-mut-cross-{seed}-rel-plain", f"{SCR}/ev-{seed}", f"{SCR}/rp-{seed}"):
            shutil.rmtree(d, ignore_errors=True)
    return seed, res

def main():
    ap = argparse.ArgumentParser()
    ap.add_argument("--seeds"); ap.add_argument("--checks"); ap.add_argument("--jobs", type=int, default=2)
    ap.add_argument("--dir", default="seeded", help="seeded (changes that break a property) or benign (changes that keep every property)")
    ap.add_argument("--out")
    a = ap.parse_args()
    a.out = a.out or os.path.join(VERIF, a.dir, "CROSS.json")
    seeds = a.seeds.split(",") if a.seeds else sorted(os.path.basename(d) for d in glob.glob(f"{VERIF}/{a.dir}/C*") if os.path.exists(os.path.join(d, "patch.diff")))
    checks = a.checks.split(",") if a.checks else ALL
    os.makedirs(SCR, exist_ok=True)
    results = {}
    if os.path.exists(a.out):
        results = json.load(open(a.out))
    threads = max(4, 16 // a.jobs)
    with ThreadPoolExecutor(a.jobs) as ex:
        for seed, res in ex.map(lambda s: one(s, checks, threads, a.dir), seeds):
            results.setdefault(seed, {}).update(res)
            fires = [c for c, v in res.items() if isinstance(v, dict) and v.get("exit") == 1]
            incs = [c for c, v in res.items() if isinstance(v, dict) and v.get("exit") not in (0, 1)]
            print(f"{seed}: fires {fires} inconclusive {incs}", flush=True)
            json.dump(results, open(a.out, "w"), indent=1, sort_keys=True)
    shutil.rmtree(SCR, ignore_errors=True)

if __name__ == "__main__":
    main()
