#!/usr/bin/env python3
"""Confirm a seeded change produced by an independent sub-agent and run our checks against it.

usage: try_seed.py <ID> [--src /tmp/seed/<ID>/_out] [--name <dir name under seeded/>] [--checks C01,C06] [--tier quick|thorough|both]

Steps (all in a scratch worktree of /repo under /tmp/tryseed, removed afterwards):
  1. unchanged tree + demo  -> demo must PASS, 174 baseline tests pass
  2. patch applied          -> builds (default and -F svg,image), 174 / 177 lib tests pass, demo must FAIL
  3. VERIF_REPO=<scratch> ./check <ID> quick (and thorough when asked or when quick stays silent)
Writes /verif/seeded/<name>/{patch.diff, demo.rs, notes.md, meta.json}.
"""
import argparse, json, os, re, shutil, subprocess, sys, time

VERIF = os.path.dirname(os.path.dirname(os.path.abspath(__file__)))

def sh(cmd, cwd=None, env=None, timeout=7200):
    e = dict(os.environ)
    e.update(env or {})
    p = subprocess.run(cmd, shell=True, cwd=cwd, env=e, capture_output=True, text=True, timeout=timeout)
    return p.returncode, p.stdout + p.stderr

def tests_ok(out, n):
    m = re.findall(r"test result: (\w+)\. (\d+) passed; (\d+) failed", out)
    return bool(m) and all(x[0] == "ok" for x in m) and any(int(x[1]) == n for x in m)

def main():
    ap = argparse.ArgumentParser()
    ap.add_argument("id")
    ap.add_argument("--src")
    ap.add_argument("--name")
    ap.add_argument("--checks")
    ap.add_argument("--tier", default="auto")
    a = ap.parse_args()
    pid = a.id
    src = a.src or f"/tmp/seed/{pid}/_out"
    name = a.name or pid
    checks = (a.checks or pid).split(",")
    wt = f"/tmp/tryseed/{name}"
    tgt = f"/tmp/tryseed/target-{name}"
    os.makedirs("/tmp/tryseed", exist_ok=True)
    sh(f"git -C /repo worktree remove --force {wt}")
    shutil.rmtree(wt, ignore_errors=True)
    rc, out = sh(f"git -C /repo worktree add --detach {wt} HEAD")
    assert rc == 0, out
    env = {"CARGO_TARGET_DIR": tgt, "CARGO_NET_OFFLINE": "true"}
    meta = {"property": pid, "seeded_by": "independent sub-agent given only the property text and a scratch worktree", "ran": []}
    demo = open(os.path.join(src, "demo.rs")).read()
    feats = ""
    first = demo.splitlines()[0] if demo else ""
    head = "\n".join(demo.splitlines()[:6])
    mf = re.search(r"-F\s*([\w,]+)", head) or re.search(r"--features[= ]([\w,]+)", head)
    if re.search(r"no (cargo )?features|default features|neither svg nor image", head):
        feats = ""
    elif mf:
        feats = "-F " + mf.group(1)
    elif "svg,image" in head or "image" in first:
        feats = "-F svg,image"
    elif "svg" in head:
        feats = "-F svg"
    rel = " --release" if re.search(r"profile:\s*release", head) else ""
    meta["demo_profile"] = "release" if rel else "dev"
    os.makedirs(os.path.join(wt, "tests"), exist_ok=True)
    open(os.path.join(wt, "tests/demo.rs"), "w").write(demo)
    def record(step, cmd, ok, tail):
        meta["ran"].append({"step": step, "cmd": cmd, "ok": ok, "tail": tail[-300:]})
        print(f"  [{ 'ok' if ok else 'NO'}] {step}: {cmd}")
    # 1. unchanged
    cmd = f"cargo test --offline{rel} --test demo {feats}"
    rc, out = sh(cmd, cwd=wt, env=env)
    demo_pass_clean = rc == 0
    record("demo on unchanged tree must pass", cmd, demo_pass_clean, out)
    # 2. patched
    rc, out = sh(f"git apply {os.path.join(src, 'patch.diff')}", cwd=wt)
    record("patch applies", "git apply patch.diff", rc == 0, out)
    applies = rc == 0
    rc1, o1 = sh("cargo build --offline", cwd=wt, env=env)
    rc2, o2 = sh("cargo build --offline -F svg,image", cwd=wt, env=env)
    record("builds", "cargo build --offline [-F svg,image]", rc1 == 0 and rc2 == 0, o1 + o2)
    rc, out = sh("cargo test --offline --lib", cwd=wt, env=env)
    base_ok = tests_ok(out, 174)
    record("174 baseline tests pass with the change", "cargo test --offline --lib", base_ok, out)
    rc, out = sh("cargo test --offline --lib -F svg,image", cwd=wt, env=env)
    feat_ok = tests_ok(out, 177)
    record("177 feature tests pass with the change", "cargo test --offline --lib -F svg,image", feat_ok, out)
    if rel:
        rc, out = sh("cargo test --offline --release --lib", cwd=wt, env=env)
        # informational: the baseline command runs the dev profile; a change that only the release-profile test run
        # notices still "passes the existing tests" in the sense of the brief
        meta["release_profile_lib_tests_pass"] = tests_ok(out, 174)
        record("(informational) 174 baseline tests in the release profile", "cargo test --offline --release --lib", tests_ok(out, 174), out)
    rc, out = sh(cmd, cwd=wt, env=env)
    demo_fail_patched = rc != 0 and ("test result: FAILED" in out or "panicked" in out or "overflowed its stack" in out or "signal:" in out)
    record("demo with the change must fail", cmd, demo_fail_patched, out)
    confirmed = demo_pass_clean and applies and base_ok and demo_fail_patched and rc1 == 0 and rc2 == 0
    meta["confirmed"] = confirmed
    meta["feature_tests_pass"] = feat_ok
    # 3. our checks (demo file removed so that it cannot interfere)
    os.remove(os.path.join(wt, "tests/demo.rs"))
    results = {}
    if confirmed:
        cenv = {"VERIF_REPO": wt, "VERIF_TARGET_DIR": f"{VERIF}/harness/target-mut-seed-{name}", "VERIF_EVIDENCE_DIR": f"/tmp/tryseed/ev-{name}", "VERIF_REPLAY_DIR": f"/tmp/tryseed/rp-{name}"}
        for c in checks:
            tiers = ["quick", "thorough"] if a.tier in ("auto", "both") else [a.tier]
            for tier in tiers:
                t0 = time.time()
                rc, out = sh(f"./check {c} {tier}", cwd=VERIF, env=cenv)
                first = next((l for l in out.splitlines() if l.startswith("VIOLATION")), "")
                inc = next((l for l in out.splitlines() if l.startswith("INCONCLUSIVE")), "")
                results[f"{c}/{tier}"] = {"exit": rc, "first_violation": re.sub(r"replay=\S+ ", "", first)[:400], "inconclusive": inc[:300], "secs": round(time.time() - t0, 1)}
                print(f"  check {c} {tier}: exit {rc} {first[:200]}")
                if rc == 1 and a.tier == "auto":
                    break
        import glob
        for d in glob.glob(f"{VERIF}/harness/target-mut-seed-{name}*"):
            if re.fullmatch(rf".*/target-mut-seed-{re.escape(name)}(-rel-nohooks|-rel-hooks|-rel-plain|-rel|-fuzz|-dev)?", d):
                shutil.rmtree(d, ignore_errors=True)
    meta["checks"] = results
    meta["detected"] = any(v["exit"] == 1 for v in results.values())
    # keep
    dst = os.path.join(VERIF, "seeded", name)
    os.makedirs(dst, exist_ok=True)
    if os.path.realpath(src) != os.path.realpath(dst):
        shutil.copy(os.path.join(src, "patch.diff"), dst)
        shutil.copy(os.path.join(src, "demo.rs"), dst)
        if os.path.exists(os.path.join(src, "notes.md")):
            shutil.copy(os.path.join(src, "notes.md"), dst)
    # a re-run after the checks were strengthened keeps the earlier outcome for the record
    old_meta = os.path.join(dst, "meta.json")
    if os.path.exists(old_meta):
        try:
            old = json.load(open(old_meta))
            hist = old.get("earlier_runs", [])
            hist.append({"checks": old.get("checks"), "detected": old.get("detected")})
            meta["earlier_runs"] = hist
            for k in ("what", "needs"):
                if k in old:
                    meta[k] = old[k]
        except Exception:
            pass
    json.dump(meta, open(os.path.join(dst, "meta.json"), "w"), indent=1)
    sh(f"git -C /repo worktree remove --force {wt}")
    shutil.rmtree(wt, ignore_errors=True)
    shutil.rmtree(tgt, ignore_errors=True)
    for d in (f"/tmp/tryseed/ev-{name}", f"/tmp/tryseed/rp-{name}"):
        shutil.rmtree(d, ignore_errors=True)
    print(f"{name}: confirmed={confirmed} detected={meta['detected']}")

if __name__ == "__main__":
    main()
