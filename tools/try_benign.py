#!/usr/bin/env python3
"""Confirm a property-preserving change written by an independent sub-agent and run EVERY quick check on it.

usage: try_benign.py <name> [--src /tmp/seed/<name>/_out]
  1. scratch worktree of /repo + patch: builds (default, svg+image, svg+image+verif_hooks), 174 / 177 lib tests pass
  2. tools/cross.py --dir benign --seeds <name>: all 19 quick checks must exit 0 (any VIOLATION = false alarm of mine,
     any INCONCLUSIVE = my harness cannot cope with a legitimate change)
Keeps /verif/benign/<name>/{patch.diff, notes.md, meta.json}.
"""
import argparse, json, os, re, shutil, subprocess, sys
VERIF = os.path.dirname(os.path.dirname(os.path.abspath(__file__)))

def sh(cmd, cwd=None, env=None, timeout=7200):
    e = dict(os.environ); e.update(env or {})
    p = subprocess.run(cmd, shell=True, cwd=cwd, env=e, capture_output=True, text=True, timeout=timeout)
    return p.returncode, p.stdout + p.stderr

def tests_ok(out, n):
    m = re.findall(r"test result: (\w+)\. (\d+) passed; (\d+) failed", out)
    return bool(m) and all(x[0] == "ok" for x in m) and any(int(x[1]) == n for x in m)

def main():
    ap = argparse.ArgumentParser(); ap.add_argument("name"); ap.add_argument("--src"); ap.add_argument("--checks"); ap.add_argument("--force", action="store_true", help="run the checks even if the repository tests do not all pass (recorded in meta)"); ap.add_argument("--patch", default="patch.diff")
    a = ap.parse_args()
    src = a.src or f"/tmp/seed/{a.name}/_out"
    dst = os.path.join(VERIF, "benign", a.name)
    os.makedirs(dst, exist_ok=True)
    if os.path.realpath(src) != os.path.realpath(dst):
        shutil.copy(os.path.join(src, a.patch), os.path.join(dst, "patch.diff"))
        if os.path.exists(os.path.join(src, "notes.md")):
            shutil.copy(os.path.join(src, "notes.md"), dst)
    wt = f"/tmp/trybenign-{os.getpid()}/{a.name}"; tgt = wt + "-target"
    os.makedirs(os.path.dirname(wt), exist_ok=True)
    rc, out = sh(f"git -C /repo worktree add --detach {wt} HEAD"); assert rc == 0, out
    meta = {"name": a.name, "written_by": "independent sub-agent given only the property text: a change that must keep the property true", "ran": []}
    try:
        env = {"CARGO_TARGET_DIR": tgt, "CARGO_NET_OFFLINE": "true"}
        rc, out = sh(f"git apply {dst}/patch.diff", cwd=wt); meta["ran"].append({"step": "patch applies", "ok": rc == 0})
        ok = rc == 0
        for feat in ("", "-F svg,image", "-F svg,image,verif_hooks"):
            rc, out = sh(f"cargo build --offline {feat}", cwd=wt, env=env); meta["ran"].append({"step": f"cargo build {feat}", "ok": rc == 0}); ok &= rc == 0
        rc, out = sh("cargo test --offline --lib", cwd=wt, env=env); t1 = tests_ok(out, 174); meta["ran"].append({"step": "174 baseline tests", "ok": t1})
        rc, out = sh("cargo test --offline --lib -F svg,image", cwd=wt, env=env); t2 = tests_ok(out, 177); meta["ran"].append({"step": "177 feature tests", "ok": t2})
        meta["confirmed_builds_and_tests"] = bool(ok and t1 and t2)
    finally:
        sh(f"git -C /repo worktree remove --force {wt}"); shutil.rmtree(os.path.dirname(wt), ignore_errors=True)
    for r in meta["ran"]:
        print(f"  [{'ok' if r['ok'] else 'NO'}] {r['step']}")
    if meta["confirmed_builds_and_tests"] or a.force:
        out_json = os.path.join(dst, "cross.json")
        if os.path.exists(out_json):
            os.remove(out_json)
        extra = f" --checks {a.checks}" if a.checks else ""
        rc, out = sh(f"python3 {VERIF}/tools/cross.py --dir benign --seeds {a.name} --jobs 1 --out {out_json}{extra}")
        print(out.strip().splitlines()[-1] if out.strip() else "")
        res = json.load(open(out_json)).get(a.name, {})
        os.remove(out_json)
        meta["checks"] = res
        meta["false_alarms"] = [c for c, v in res.items() if isinstance(v, dict) and v.get("exit") == 1]
        meta["inconclusive"] = [c for c, v in res.items() if isinstance(v, dict) and v.get("exit") not in (0, 1)]
    json.dump(meta, open(os.path.join(dst, "meta.json"), "w"), indent=1)
    print(f"{a.name}: confirmed={meta['confirmed_builds_and_tests']} false_alarms={meta.get('false_alarms')} inconclusive={meta.get('inconclusive')}")

if __name__ == "__main__":
    main()
