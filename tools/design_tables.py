#!/usr/bin/env python3
"""Regenerates the generated block of DESIGN.md (between the BEGIN/END GENERATED markers) from
selftest/RESULTS.json and seeded/*/meta.json."""
import json, glob, os, re
ROOT = os.path.dirname(os.path.dirname(os.path.abspath(__file__)))

def seeded_table():
    rows = []
    for d in sorted(glob.glob(os.path.join(ROOT, "seeded", "*"))):
        mp = os.path.join(d, "meta.json")
        if not os.path.exists(mp):
            continue
        m = json.load(open(mp))
        notes = ""
        np_ = os.path.join(d, "notes.md")
        what = m.get("what", "")
        needs = m.get("needs", "")
        if not what and os.path.exists(np_):
            txt = open(np_).read()
            what = txt.strip().splitlines()[0][:160] if txt.strip() else ""
        checks = m.get("checks", {})
        det = []
        for k, v in checks.items():
            det.append(f"{k}: {'FIRES' if v['exit']==1 else ('silent' if v['exit']==0 else 'inconclusive')}")
        missed_before = [e for e in m.get("earlier_runs", []) if e.get("detected") is False]
        if missed_before:
            tiers = ", ".join((missed_before[0].get("checks") or {}).keys())
            det.append(f"(MISSED when first tried [{tiers} silent]; fires since the check was strengthened, section 14)")
        first = next((v["first_violation"] for v in checks.values() if v["exit"] == 1), "")
        kind = re.search(r"kind=(\S+)", first)
        rows.append(f"| {os.path.basename(d)} | {m.get('property')} | {what} | {needs} | {'yes' if m.get('confirmed') else 'NO'} | {'; '.join(det)} | {kind.group(1) if kind else ''} |")
    head = "| seeded change | property | what was changed | what it needs to manifest | confirmed (demo passes clean / fails patched, 174 tests pass) | our checks | violation kind reported |\n|---|---|---|---|---|---|---|\n"
    return head + "\n".join(rows) + "\n"

def cross_table():
    p = os.path.join(ROOT, "seeded", "CROSS.json")
    if not os.path.exists(p):
        return "(cross matrix not run yet)\n"
    d = json.load(open(p))
    out = "Quick command of EVERY check against every seeded change (`tools/cross.py`; exit 1 = fires). Rounds 1-4 were swept with the harness as it stood after round 4 (a change whose own check is shown silent there was caught later, see table 13.1 and section 14); rounds 10 and 11 with the final harness (38 changes x 19 checks: every own check fires; the few INCONCLUSIVE entries are child processes of another check dying on a tree that panics).\n\n| seeded change | its own check | other checks that also fire |\n|---|---|---|\n"
    n_own = 0
    for s in sorted(d):
        r = d[s]
        if "error" in r:
            continue
        own = s.split("-")[0]
        fires = [c for c, v in sorted(r.items()) if isinstance(v, dict) and v.get("exit") == 1]
        inc = [c for c, v in sorted(r.items()) if isinstance(v, dict) and v.get("exit") not in (0, 1)]
        n_own += own in fires
        out += f"| {s} | {'fires (' + r[own]['kind'] + ')' if own in fires else 'silent'} | {', '.join(c for c in fires if c != own) or '-'}{' ; INCONCLUSIVE: ' + ', '.join(inc) if inc else ''} |\n"
    out += f"\n{n_own} of {len(d)} seeded changes are reported by the quick check of the property they were written against; "
    out += "the others are reported by the check that owns the mechanism (history dependence: C14) or are discussed in section 14.\n"
    return out

def mutant_table():
    p = os.path.join(ROOT, "selftest", "RESULTS.json")
    if not os.path.exists(p):
        return "(selftest not run yet)\n"
    rs = json.load(open(p))
    out = "| mutant | edit | checks run | result |\n|---|---|---|---|\n"
    for r in rs:
        if "fired" in r:
            ch = ", ".join(f"{k}:{'fires' if v['exit']==1 else ('silent' if v['exit']==0 else 'inconclusive')}" for k, v in r["fired"].items())
        else:
            ch = ", ".join(r["props"])
        out += f"| {r['id']} | {r['note']} | {ch} | {r['status']} |\n"
    n = len(rs)
    out += f"\n{n} mutants: {sum(1 for r in rs if r['status'].startswith('caught'))} caught, {sum(1 for r in rs if r['status']=='MISSED')} missed, {sum(1 for r in rs if r['status']=='ok (silent)')} benign and silent, {sum(1 for r in rs if r['status']=='FALSE ALARM')} false alarms, {sum(1 for r in rs if 'killed' in r['status'] or 'compile' in r['status'])} unusable (killed by the repository's own tests or not compiling).\n"
    return out

def main():
    p = os.path.join(ROOT, "DESIGN.md")
    s = open(p).read()
    b, e = "<!-- BEGIN GENERATED TABLES -->", "<!-- END GENERATED TABLES -->"
    block = f"{b}\n\n### 13.1 Changes seeded by independent sub-agents\n\n{seeded_table()}\n### 13.2 Mutation self-test (`selftest/run.py`)\n\n{mutant_table()}\n### 13.3 Cross matrix: which checks catch which changes\n\n{cross_table()}\n{e}"
    if b in s:
        s = s[:s.index(b)] + block + s[s.index(e) + len(e):]
    else:
        s += "\n" + block + "\n"
    open(p, "w").write(s)
    print("DESIGN.md tables regenerated")

if __name__ == "__main__":
    main()
