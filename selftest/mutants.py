"""Mutation self-test catalogue: realistic single edits of erwanvivien/fast_qr.

Each entry: id, prop (the check expected to fire; several allowed, first is the primary),
file (relative to the repo root), old -> new (old must occur exactly once unless count is
given), tier (quick unless the break needs the thorough depth), benign (True: the property
still holds, every listed check must stay silent).
"""

M = []


def m(id, prop, file, old, new, tier="quick", benign=False, note="", count=1, more=()):
    """more = further (file, old, new) edits that belong to the same mutant"""
    M.append(dict(id=id, prop=prop if isinstance(prop, list) else [prop], edits=[(file, old, new)] + list(more),
                  tier=tier, benign=benign, note=note))


# ---------------------------------------------------------------- encoding (C01, C06)
m("enc-cci-byte-v10", ["C06", "C01"], "src/hardcode.rs",
  "        Mode::Byte => match version {\n            v if (v as usize) >= (V10 as usize) => 16,",
  "        Mode::Byte => match version {\n            v if (v as usize) > (V10 as usize) => 16,",
  note="byte count width switches one version late (only version 10)")
m("enc-cci-num-v27", ["C06", "C01"], "src/hardcode.rs",
  "        Mode::Numeric => match version {\n            v if (v as usize) >= (V27 as usize) => 14,",
  "        Mode::Numeric => match version {\n            v if (v as usize) > (V27 as usize) => 14,",
  note="numeric count width wrong at version 27 only")
m("enc-pad-swapped", ["C06"], "src/compact.rs",
  "const PAD_BYTES: [u8; 2] = [0b1110_1100, 0b0001_0001];",
  "const PAD_BYTES: [u8; 2] = [0b0001_0001, 0b1110_1100];",
  note="pad alternation starts with 0x11: round trip unaffected")
m("enc-terminator-3", ["C06"], "src/encode.rs",
  "    let len = core::cmp::min(len, 4);\n",
  "    let len = core::cmp::min(len, 3);\n",
  note="terminator of 3 bits: lenient decoders still read it")
m("enc-alnum-swap", ["C01", "C06"], "src/encode.rs",
  "        b'*' => 39,\n        b'+' => 40,",
  "        b'+' => 39,\n        b'*' => 40,",
  note="'*' and '+' swapped in the alphanumeric value table")
m("enc-numeric-tail", ["C06", "C01"], "src/encode.rs",
  "            NumericEncoding::Double => compact.push_bits(number, 7),",
  "            NumericEncoding::Double => compact.push_bits(number, 8),",
  note="two-digit tail written with 8 bits")
m("enc-pushbits-add", ["C06", "C01"], "src/compact.rs",
  "        if rem_space > len {\n            self.data[first] |= (bits << (rem_space - len)) as u8;",
  "        if rem_space >= len {\n            self.data[first] |= (bits << (rem_space - len)) as u8;",
  benign=True, note="benign: rem_space == len also fits the first branch")

# ---------------------------------------------------------------- block layout (C02)
m("blk-groups-12L", ["C02"], "src/hardcode.rs",
  "(2 << 24) | (92 << 16) | (2 << 8) | 93,", "(2 << 24) | (93 << 16) | (2 << 8) | 92,",
  note="12-L short/long block sizes swapped")
m("blk-datacw-27M", ["C02", "C05"], "src/hardcode.rs",
  "1000, 1062, 1128, 1193,", "1000, 1062, 1129, 1193,",
  note="data codeword count of 27-M off by one")
m("blk-poly-13H", ["C02", "C07"], "src/hardcode.rs",
  "(V02 | V08, Q) | (V03 | V05 | V13, H) | (V08 | V09 | V12 | V13, M) | (V15, L) => &[",
  "(V02 | V08, Q) | (V03 | V05, H) | (V08 | V09 | V12 | V13, M) | (V15, L) => &[",
  note="13-H moved from the degree-22 arm to the degree-24 arm",
  more=[("src/hardcode.rs", "        | (V09 | V11 | V14 | V15 | V22, H) => &[", "        | (V09 | V11 | V13 | V14 | V15 | V22, H) => &[")])
m("blk-ec-second-group", ["C02", "C07"], "src/polynomials.rs",
  "            interleaved_data[start_error_idx + j * groups_count_total + i + g1_count] =",
  "            interleaved_data[start_error_idx + j * groups_count_total + i] =",
  note="EC of second-group blocks written over first-group slots")
m("blk-missing-bits-14", ["C02"], "src/version.rs",
  "            V14 | V15 | V16 | V17 | V18 | V19 | V20 | V28 | V29 | V30 | V31 | V32 | V33 | V34 => 3,\n            V21 | V22 | V23 | V24 | V25 | V26 | V27 => 4,",
  "            V15 | V16 | V17 | V18 | V19 | V20 | V28 | V29 | V30 | V31 | V32 | V33 | V34 => 3,\n            V14 | V21 | V22 | V23 | V24 | V25 | V26 | V27 => 4,",
  note="remainder bit count of version 14 wrong")
m("blk-interleave-swap", ["C02", "C01"], "src/polynomials.rs",
  "                let idx = j * g2_size + i + g1_size * g1_count;",
  "                let idx = j * g2_size + i + g1_size * g2_count;",
  note="second group offset uses the wrong count")

# ---------------------------------------------------------------- function patterns (C03, C15)
m("fp-align-v22", ["C03", "C15"], "src/version.rs",
  "            &[6, 26, 50, 74, 98],\n            &[6, 30, 54, 78, 102],",
  "            &[6, 26, 50, 72, 98],\n            &[6, 30, 54, 78, 102],",
  note="one alignment coordinate of version 22")
m("fp-align-skip", ["C03", "C15"], "src/default.rs",
  "            if i == 0 && (j == max || j == 0) || (i == max && j == 0) {",
  "            if i == 0 && (j == max || j == 0) {",
  note="alignment pattern drawn over the bottom-left finder")
m("fp-timing-after-align", ["C03", "C15"], "src/default.rs",
  "    create_matrix_timing(&mut qr);\n    create_matrix_dark_module(&mut qr);\n    create_matrix_alignments(&mut qr, version);",
  "    create_matrix_dark_module(&mut qr);\n    create_matrix_alignments(&mut qr, version);\n    create_matrix_timing(&mut qr);",
  benign=True, note="benign: timing drawn after alignment (values coincide, either label accepted)")
m("fp-separator-label", ["C15"], "src/default.rs",
  "        qr[i][n - 8] = Module::empty(Module::LIGHT);", "        qr[i][n - 8] = Module::finder_pattern(Module::LIGHT);",
  note="one separator strip labelled finder")

# ---------------------------------------------------------------- format / version info (C04)
m("fmt-table-Q5", ["C04", "C01"], "src/hardcode.rs",
  "        0b010_0001_1000_0011,", "        0b010_0001_1000_0111,",
  note="format word Q/mask 5 one bit wrong (decoders still correct it)")
m("ver-table-33", ["C04"], "src/version.rs",
  "            0b10_0001_0110_1111_0000,", "            0b10_0001_0110_1111_0001,",
  note="version word of version 33 one bit wrong")
m("fmt-default-level", ["C04"], "src/qr.rs",
  "        let level = ecl.unwrap_or(ECL::Q);", "        let level = ecl.unwrap_or(ECL::M);",
  note="default level M instead of Q")
m("fmt-mask-before-force", ["C04", "C08", "C01", "C11"], "src/placement.rs",
  "    best_mask = mask.unwrap_or(best_mask);\n    *mask = Some(best_mask);\n\n    default::create_matrix_format_info(&mut qr, quality, best_mask);",
  "    default::create_matrix_format_info(&mut qr, quality, best_mask);\n\n    best_mask = mask.unwrap_or(best_mask);\n    *mask = Some(best_mask);\n",
  note="format information written with the automatic mask although another one is forced")
m("fmt-copy2-bit8", ["C04"], "src/default.rs",
  "        // Six on bottom\n        qr[n - 7][8] = Module::format(value);",
  "        // Six on bottom\n        qr[n - 7][8] = Module::format(!value);",
  note="second copy of format bit 8 inverted (first copy fine)")

# ---------------------------------------------------------------- version selection (C05)
m("ver-threshold-num-L", ["C05"], "src/version.rs",
  "                    42..=77 => Some(V02),\n                    78..=127 => Some(V03),",
  "                    42..=78 => Some(V02),\n                    79..=127 => Some(V03),",
  note="one capacity threshold too generous: 78 digits into 2-L")
m("ver-forced-gt", ["C05"], "src/qr.rs",
  "            Some(user_version) if user_version as usize >= version as usize => user_version,",
  "            Some(user_version) if user_version as usize > version as usize => user_version,",
  note="forcing exactly the minimal version is refused")
m("ver-errors-swapped", ["C05"], "src/qr.rs",
  "            None => return Err(QRCodeError::EncodedData),", "            None => return Err(QRCodeError::SpecifiedVersion),",
  note="too-big input reports the other error")

# ---------------------------------------------------------------- GF arithmetic (C07)
m("gf-antilog-entry", ["C07", "C02"], "src/polynomials.rs",
  "    175, 0, 1, 25, 2, 50, 26, 198, 3, 223, 51, 238, 27, 104, 199, 75, 4, 100, 224, 14, 52, 141,",
  "    175, 0, 1, 25, 2, 50, 26, 198, 3, 223, 51, 238, 27, 104, 199, 75, 4, 100, 224, 14, 52, 142,",
  note="one log-table entry wrong (byte value 21)")
m("gf-poly-30-coeff", ["C07", "C02"], "src/hardcode.rs",
  "            226, 193, 224, 130, 156, 37, 251, 216, 238, 40, 192, 180,",
  "            226, 193, 224, 130, 156, 37, 251, 216, 238, 40, 192, 181,",
  note="last coefficient of the degree-30 generator")
m("gf-zero-skip", ["C07", "C02"], "src/polynomials.rs",
  "        if from_mut[i] == 0 {\n            continue;\n        }",
  "        if from_mut[i] == 0 {\n            break;\n        }",
  note="division stops at the first zero coefficient")

# ---------------------------------------------------------------- masking (C08)
m("mask-diag-start", ["C08", "C01"], "src/datamasking.rs",
  "        let start = (3 - row % 3) % 3;", "        let start = row % 3;",
  note="pattern 3 mirrored")
m("mask-meadow-type", ["C08", "C03", "C04"], "src/datamasking.rs",
  "            if column != row && module.module_type() == ModuleType::Data {",
  "            if column != row {",
  note="pattern 7 toggles function modules in the lower triangle")
m("mask-offsets-6", ["C08", "C01"], "src/datamasking.rs",
  "        (4, 3), (4, 5), (5, 4), (5, 5)", "        (4, 3), (5, 4), (5, 4), (5, 5)",
  note="pattern 6 offset list: (4,5) missing, (5,4) toggled twice")
m("mask-lcb-edge", ["C08", "C10"], "src/datamasking.rs",
  "            for i in column..core::cmp::min(qr.size, column + 3) {", "            for i in column..core::cmp::min(qr.size - 1, column + 3) {",
  note="pattern 4 never touches the last column")

# ---------------------------------------------------------------- mode selection (C09)
m("mode-colon", ["C09"], "src/encode.rs",
  "        | b'/'\n        | b':')", "        | b'/')",
  note="':' no longer classed alphanumeric: URLs in capitals fall to byte mode")
m("mode-comma", ["C09", "C10"], "src/encode.rs",
  "        | b'/'\n        | b':')", "        | b'/'\n        | b','\n        | b':')",
  note="',' classed alphanumeric but has no value: panic")

# ---------------------------------------------------------------- totality (C10)
m("tot-group-buffer", ["C10", "C02"], "src/polynomials.rs",
  "    const MAX_GROUP_COUNT: usize = 81;", "    const MAX_GROUP_COUNT: usize = 71;",
  note="interleave buffer too small for the largest H symbols only")

# ---------------------------------------------------------------- mask selection (C11)
m("sel-direction", ["C11"], "src/placement.rs",
  "        if matrix_score < best_score {", "        if matrix_score > best_score || best_score == u32::MAX {",
  note="keeps the WORST mask")
m("sel-le", ["C11"], "src/placement.rs",
  "        if matrix_score < best_score {", "        if matrix_score <= best_score {",
  benign=True, note="benign: ties resolved towards the later mask")
m("sel-skip-mask", ["C11"], "src/placement.rs",
  "    Mask::Diamonds,\n    Mask::Meadow,\n];", "    Mask::Diamonds,\n    Mask::Diamonds,\n];",
  note="mask 7 never tried")
m("sel-no-dark", ["C11"], "src/score.rs",
  "    line_score + patt_score + col_score + dark_score + square_score", "    line_score + patt_score + col_score + square_score",
  note="dark-ratio term dropped from the ranking")
m("sel-square-2", ["C11"], "src/score.rs",
  "                square_score += 3;", "                square_score += 2;",
  note="2x2 blocks weigh 2 instead of 3")

# ---------------------------------------------------------------- SVG (C12)
m("svg-hex-pad", ["C12"], "src/convert/mod.rs",
  "    hex.push_str(&format!(\"{:02x}\", color[1]));", "    hex.push_str(&format!(\"{:x}\", color[1]));",
  note="green channel without zero padding")
m("svg-margin-axis", ["C12", "C13"], "src/convert/svg.rs",
  "                    paths[i].push_str(&command(y + self.margin, x + self.margin, cell));",
  "                    paths[i].push_str(&command(y + self.margin, x + self.margin.min(4), cell));",
  note="column margin capped at 4")
m("svg-escape-lt", ["C12"], "src/convert/svg.rs",
  "                '<' => out.push_str(\"&lt;\"),\n", "",
  note="'<' no longer escaped in href")
m("svg-alpha-cond", ["C12"], "src/convert/mod.rs",
  "    if color[3] != 255 {", "    if color[3] < 254 {",
  note="alpha 254 rendered as opaque")
m("svg-attr-order", ["C12"], "src/convert/svg.rs",
  "            r#\"<rect width=\"{0}px\" height=\"{0}px\" fill=\"{1}\"/>\"#,", "            r#\"<rect fill=\"{1}\" width=\"{0}px\" height=\"{0}px\"/>\"#,",
  benign=True, note="benign: attribute order")

# ---------------------------------------------------------------- raster (C13)
m("img-fit-height-ignored", ["C13"], "src/convert/image.rs",
  "            (None, Some(h)) => usvg::FitTo::Height(h),", "            (None, Some(_)) => usvg::FitTo::Original,",
  note="fit_height alone is ignored")
m("img-margin-not-forwarded", ["C13", "C14"], "src/convert/image.rs",
  "    fn margin(&mut self, margin: usize) -> &mut Self {\n        self.svg_builder.margin(margin);\n        self\n    }",
  "    fn margin(&mut self, _margin: usize) -> &mut Self {\n        self\n    }",
  note="ImageBuilder drops the margin option")

# ---------------------------------------------------------------- purity (C14)
m("pure-memo", ["C14"], "src/qr.rs",
  "    pub fn build(&self) -> Result<QRCode, QRCodeError> {\n        QRCode::new(&self.input, self.ecl, self.version, self.mode, self.mask)\n    }",
  "    pub fn build(&self) -> Result<QRCode, QRCodeError> {\n        use std::sync::Mutex;\n        static LAST: Mutex<Option<(Vec<u8>, Option<u8>, QRCode)>> = Mutex::new(None);\n        let key = self.version.map(|v| v as u8);\n        if let Some((i, v, q)) = LAST.lock().unwrap().as_ref() {\n            if *i == self.input && *v == key {\n                return Ok(q.clone());\n            }\n        }\n        let out = QRCode::new(&self.input, self.ecl, self.version, self.mode, self.mask)?;\n        *LAST.lock().unwrap() = Some((self.input.clone(), key, out.clone()));\n        Ok(out)\n    }",
  note="memo of the last symbol keyed on input+version only (level/mask/mode changes are ignored)")

# ---------------------------------------------------------------- labels (C15)
m("lbl-format-reserve", ["C15", "C02", "C01"], "src/default.rs",
  "        qr[8][n - 1 - 7] = Module::format(Module::LIGHT);\n", "",
  note="one format module not reserved: labelled data until overwritten")

# ---------------------------------------------------------------- terminal (C16)
m("term-halves-swapped", ["C16"], "src/helpers.rs",
  "            (true, false) => line.push(BOTTOM),\n            (false, true) => line.push(TOP),",
  "            (true, false) => line.push(TOP),\n            (false, true) => line.push(BOTTOM),",
  note="half blocks swapped")
m("term-last-border", ["C16"], "src/helpers.rs",
  "    let line = print_line(&qr[qr.size - 1], &[Module::empty(false); 177], qr.size);",
  "    let line = print_line(&qr[qr.size - 1], &[Module::empty(true); 177], qr.size);",
  note="bottom border dark")

# ---------------------------------------------------------------- wasm (C17)
m("wasm-position-guard", ["C17"], "src/wasm.rs",
  "    if options.image_position.len() == 2 {\n        let x = options.image_position[0];",
  "    if options.image_size.len() == 2 {\n        let x = options.image_position[0];",
  note="the repaired defect 679c6ad returns")
m("wasm-color-unwrap", ["C17"], "src/wasm.rs",
  "                .and_then(|x| u8::from_str_radix(x, 16).ok())", "                .map(|x| u8::from_str_radix(x, 16).unwrap())",
  note="half of the repaired defect 05364a0 returns (non-hex digits)")
m("wasm-margin-default", ["C17"], "src/wasm.rs",
  "            module_color: vec![0, 0, 0, 255],\n            margin: 4,", "            module_color: vec![0, 0, 0, 255],\n            margin: 2,",
  note="wasm default margin differs from the native default")

# ---------------------------------------------------------------- image frame (C18)
m("frame-table-v5", ["C18"], "src/convert/svg.rs",
  "            5f64,   9f64,  9f64, 11f64, 13f64,\n            13f64,", "            5f64,   9f64,  9f64, 11f64, 15f64,\n            13f64,",
  note="frame of version 5 larger than that of version 6")
m("frame-parity", ["C18"], "src/convert/svg.rs",
  "        if placed_coord_x % 2f64 != 0f64 {\n            placed_coord_x += 1f64;\n            border_size -= 1f64;\n        }",
  "        if placed_coord_x % 2f64 != 0f64 {\n            placed_coord_x += 1f64;\n        }",
  note="parity adjustment moves the frame without shrinking it: off-centre by half a module")

# ---------------------------------------------------------------- file output (C19)
m("file-write-not-all", ["C19"], "src/convert/svg.rs",
  "        f.write_all(out.as_bytes()).map_err(SvgError::IoError)?;", "        f.write(out.as_bytes()).map_err(SvgError::IoError)?;",
  note="a short write is reported as success")
m("file-error-swallowed", ["C19"], "src/convert/svg.rs",
  "        f.write_all(out.as_bytes()).map_err(SvgError::IoError)?;", "        let _ = f.write_all(out.as_bytes());",
  note="write errors ignored")
m("file-png-unwrap", ["C19"], "src/convert/image.rs",
  "            .save_png(file)\n            .map_err(|err| ImageError::IoError(Error::new(ErrorKind::Other, err.to_string())))",
  "            .save_png(file)\n            .map_err(|err| ImageError::IoError(Error::new(ErrorKind::Other, err.to_string())))\n            .map(|()| {\n                let _ = std::fs::metadata(file).unwrap();\n            })",
  note="PNG path panics when the file cannot be inspected afterwards (only reachable after success: benign)", benign=True)


# ---------------------------------------------------------------- second round: replacements for
# mutants that the repository's own goldens kill (they sit in cells the goldens do not cover)
m("blk-groups-33H", ["C02"], "src/hardcode.rs",
  "        (11 << 24) | (15 << 16) | (46 << 8) | 16,", "        (46 << 24) | (15 << 16) | (11 << 8) | 16,",
  note="33-H: counts of short and long blocks swapped")
m("blk-missing-bits-34", ["C02"], "src/version.rs",
  "            V14 | V15 | V16 | V17 | V18 | V19 | V20 | V28 | V29 | V30 | V31 | V32 | V33 | V34 => 3,",
  "            V14 | V15 | V16 | V17 | V18 | V19 | V20 | V28 | V29 | V30 | V31 | V32 | V33 => 3,\n            V34 => 4,",
  note="remainder bit count of version 34 wrong")
m("blk-maxbytes-36", ["C02", "C10"], "src/version.rs",
  "2611, 2761, 2876, 3034, 3196, 3362, 3532, 3706,", "2611, 2761, 2876, 3035, 3196, 3362, 3532, 3706,",
  note="total codeword count of version 36 off by one")
m("ver-table-34", ["C04"], "src/version.rs",
  "            0b10_0010_1000_1011_1010,", "            0b10_0010_1000_1011_1000,",
  note="version word of version 34 one bit wrong (a version the goldens skip)")
m("gf-antilog-254", ["C07", "C02"], "src/polynomials.rs",
  "    232, 116, 214, 244, 234, 168, 80, 88, 175,\n];", "    232, 116, 214, 244, 234, 168, 80, 89, 175,\n];",
  note="log-table entry of byte value 254 wrong")
m("gf-log-199", ["C07", "C02"], "src/polynomials.rs",
  "    83, 166, 81, 162, 89, 178, 121, 242, 249, 239, 195, 155, 43, 86, 172, 69, 138, 9, 18, 36, 72,",
  "    83, 166, 81, 162, 89, 178, 121, 242, 249, 239, 195, 155, 43, 86, 172, 69, 138, 9, 18, 36, 73,",
  note="one exp-table entry wrong")
m("mask-meadow-u8", ["C08", "C01"], "src/datamasking.rs",
  "            if (((row + column) % 2) + ((row * column) % 3)) % 2 != 0 {",
  "            if (((row + column) % 2) + ((row * column) as u8 as usize % 3)) % 2 != 0 {",
  note="pattern 7: product truncated to 8 bits, wrong beyond row*column >= 256 only")
m("mode-dollar", ["C09"], "src/encode.rs",
  "        | b' '\n        | b'$'\n        | b'%'", "        | b' '\n        | b'%'",
  note="'$' no longer classed alphanumeric")
m("mode-underscore", ["C09", "C10"], "src/encode.rs",
  "        | b' '\n        | b'$'\n        | b'%'", "        | b' '\n        | b'_'\n        | b'$'\n        | b'%'",
  note="'_' classed alphanumeric but has no value: panic")
m("tot-threshold-40H-byte", ["C10", "C05"], "src/version.rs",
  "                    1220..=1273 => Some(V40),\n                    _ => None,\n                },\n            },\n        }\n    }",
  "                    1220..=1274 => Some(V40),\n                    _ => None,\n                },\n            },\n        }\n    }",
  note="last byte-mode threshold one too generous: 1274 bytes at 40-H underflow the terminator")
m("sel-line-threshold", ["C11"], "src/score.rs",
  "        if item.value() != current {\n            if count >= 5 {\n                line_score += count - 2;\n            }",
  "        if item.value() != current {\n            if count > 5 {\n                line_score += count - 2;\n            }",
  note="runs of exactly five ended by a colour change are not penalised (rows only matter for the ranking)")
m("lbl-version-block", ["C15", "C03"], "src/default.rs",
  "            qr[n - 11 + i][j] = Module::version(value);", "            qr[n - 11 + i][j] = Module::format(value);",
  note="bottom-left version block labelled format")


# ---------------------------------------------------------------- benign refactorings: the property still
# holds, every listed check must stay silent (false-alarm probes)
m("ok-svg-square-z", ["C12", "C13", "C15"], "src/convert/mod.rs",
  "        format!(\"M{x},{y}h1v1h-1\")\n    }\n\n    pub(crate) fn circle", "        format!(\"M{x},{y}h1v1h-1z\")\n    }\n\n    pub(crate) fn circle",
  benign=True, note="benign: square sub-paths closed with z")
m("ok-hex-uppercase", ["C12", "C13", "C17"], "src/convert/mod.rs",
  "    hex.push_str(&format!(\"{:02x}\", color[0]));", "    hex.push_str(&format!(\"{:02X}\", color[0]));",
  benign=True, note="benign: red channel in upper-case hex")
m("ok-rect-no-px", ["C12", "C13", "C18"], "src/convert/svg.rs",
  "            r#\"<rect width=\"{0}px\" height=\"{0}px\" fill=\"{1}\"/>\"#,", "            r#\"<rect width=\"{0}\" height=\"{0}\" fill=\"{1}\"/>\"#,",
  benign=True, note="benign: background rect without the px suffix")
m("ok-score-scaled", ["C11"], "src/placement.rs",
  "        let matrix_score = score::score(&copy, &copy_transpose);", "        let matrix_score = score::score(&copy, &copy_transpose) * 2 + 1;",
  benign=True, note="benign: ranking by an order-equivalent quantity")
m("ok-circle-leading-zero", ["C12", "C13"], "src/convert/mod.rs",
  "        format!(\"M{},{y}.5a.5,.5 0 1,1 0,-.1\", x + 1)", "        format!(\"M{},{y}.5a0.5,0.5 0 1,1 0,-0.1\", x + 1)",
  benign=True, note="benign: numbers written with a leading zero")
m("ok-format-before-scoring", ["C11", "C08", "C04"], "src/placement.rs",
  "        datamasking::mask(&mut copy, mask);\n        let matrix_score", "        datamasking::mask(&mut copy, mask);\n        default::create_matrix_format_info(&mut copy, quality, mask);\n        let matrix_score",
  benign=True, note="benign: candidates carry their format information when they are scored (as ISO prescribes)")
m("ok-svg-newlines", ["C12", "C18", "C17"], "src/convert/svg.rs",
  "        out.push_str(&self.path(qr));\n        out.push_str(&self.image(n));", "        out.push('\\n');\n        out.push_str(&self.path(qr));\n        out.push('\\n');\n        out.push_str(&self.image(n));",
  benign=True, note="benign: newlines between elements")
