#!/bin/bash
# MANIFEST.setup_cmd: build the framework from files on disk only (offline).
set -eu
ROOT="$(cd "$(dirname "$0")" && pwd)"
export CARGO_NET_OFFLINE=true
cd "$ROOT/harness"
# five builds: main (hooks + assertions), release without hooks (as shipped with svg+image), release with hooks (for C07 / C17),
# fast_qr unoptimised (C10 only), release with NO cargo feature of fast_qr at all (plain library; symbol-level checks)
cargo build --offline --profile verifrel -p vcheck --no-default-features --features render --target-dir "$ROOT/harness/target-rel-nohooks" &
rel=$!
cargo build --offline --profile verifrel -p vcheck --target-dir "$ROOT/harness/target-rel-hooks" &
relh=$!
cargo build --offline --profile verifdev -p vcheck --target-dir "$ROOT/harness/target-dev" &
dev=$!
cargo build --offline --profile verifrel -p vcheck --no-default-features --target-dir "$ROOT/harness/target-rel-plain" &
plain=$!
cargo build --offline --profile verif -p vcheck
wait $plain
wait $dev
wait $rel
wait $relh
if [ -f shim/iofault.c ]; then
  gcc -O2 -fPIC -shared -o shim/iofault.so shim/iofault.c -ldl
fi
if [ -f shim/envspy.c ]; then
  gcc -O2 -fPIC -shared -o shim/envspy.so shim/envspy.c -ldl
fi
echo "setup ok"
