//! Coverage-guided stage. One fuzz input = 4 option bytes + payload. The payload is built by the
//! REAL fast_qr and judged in-process by the independent oracle crate; a disagreement aborts with
//! a line "VIOLATION property=<id> kind=<kind> <detail>", which libFuzzer keeps as a crash
//! artifact. Coverage feedback (edges + compared values) steers the inputs towards branches of
//! fast_qr that content-oblivious generators never take (magic prefixes, special byte values).
//!
//! VERIF_FUZZ_PROPS (comma list) selects the oracles; default all of C01 C02 C04 C05 C06 C09 C10.
#![no_main]

use fast_qr::{Mask, Mode, QRBuilder, Version, ECL};
use libfuzzer_sys::fuzz_target;
use oracle::decode::{self, Matrix};
use oracle::{gf, segment, tables};
use std::sync::OnceLock;

const VERSIONS: [Version; 40] = [
    Version::V01, Version::V02, Version::V03, Version::V04, Version::V05, Version::V06, Version::V07, Version::V08, Version::V09, Version::V10,
    Version::V11, Version::V12, Version::V13, Version::V14, Version::V15, Version::V16, Version::V17, Version::V18, Version::V19, Version::V20,
    Version::V21, Version::V22, Version::V23, Version::V24, Version::V25, Version::V26, Version::V27, Version::V28, Version::V29, Version::V30,
    Version::V31, Version::V32, Version::V33, Version::V34, Version::V35, Version::V36, Version::V37, Version::V38, Version::V39, Version::V40,
];
const LEVELS: [ECL; 4] = [ECL::L, ECL::M, ECL::Q, ECL::H];
const MASKS: [Mask; 8] = [Mask::Checkerboard, Mask::HorizontalLines, Mask::VerticalLines, Mask::DiagonalLines, Mask::LargeCheckerboard, Mask::Fields, Mask::Diamonds, Mask::Meadow];
const MODES: [Mode; 3] = [Mode::Numeric, Mode::Alphanumeric, Mode::Byte];

fn enabled(p: &str) -> bool {
    static SEL: OnceLock<Option<Vec<String>>> = OnceLock::new();
    match SEL.get_or_init(|| std::env::var("VERIF_FUZZ_PROPS").ok().map(|s| s.split(',').map(|x| x.trim().to_string()).collect())) {
        None => true,
        Some(v) => v.iter().any(|x| x == p),
    }
}

fn violation(prop: &str, kind: &str, detail: String) -> ! {
    eprintln!("VIOLATION property={prop} kind={kind} {detail}");
    std::process::abort();
}

fn level_no(l: ECL) -> usize {
    match l {
        ECL::L => 0,
        ECL::M => 1,
        ECL::Q => 2,
        ECL::H => 3,
    }
}

fuzz_target!(|data: &[u8]| {
    if data.len() < 4 {
        return;
    }
    let (o, payload) = data.split_at(4);
    // options: 0 = automatic
    let mode = match o[0] % 4 {
        0 => None,
        m => Some(m as usize - 1),
    };
    let level = match o[1] % 5 {
        0 => None,
        l => Some(l as usize - 1),
    };
    // forced versions: small ones often, big ones (slow to build and to decode) rarely
    let version = match o[2] {
        v @ 1..=12 => Some(v as usize),
        v @ 200..=227 if std::env::var_os("VERIF_FUZZ_BIG").is_some() => Some(v as usize - 187),
        _ => None,
    };
    let mask = match o[3] % 9 {
        0 => None,
        m => Some(m as usize - 1),
    };
    if payload.len() > 3200 {
        return;
    }
    let class = tables::classify(payload);
    if let Some(m) = mode {
        if !tables::mode_accepts(m, payload) {
            return; // documented assertion failure: outside every property
        }
    }
    let mut b = QRBuilder::new(payload.to_vec());
    if let Some(m) = mode {
        b.mode(MODES[m]);
    }
    if let Some(l) = level {
        b.ecl(LEVELS[l]);
    }
    if let Some(v) = version {
        b.version(VERSIONS[v - 1]);
    }
    if let Some(m) = mask {
        b.mask(MASKS[m]);
    }
    // C10: a panic inside build() aborts the process (panic = abort): libFuzzer records the crash
    let out = b.build();

    let eff_mode = mode.unwrap_or(class);
    let eff_level = level.unwrap_or(tables::Q);
    let vmin = tables::vmin(eff_level, eff_mode, payload.len());
    let want: Result<usize, &str> = match (vmin, version) {
        (None, _) => Err("too-big"),
        (Some(vm), Some(f)) if f < vm => Err("too-small"),
        (Some(_), Some(f)) => Ok(f),
        (Some(vm), None) => Ok(vm),
    };
    let describe = || format!("[len={} mode={:?} level={:?} version={:?} mask={:?} input={}]", payload.len(), mode, level, version, mask, payload.iter().take(48).map(|b| format!("{b:02x}")).collect::<String>());
    let qr = match (&out, &want) {
        (Ok(q), Ok(_)) => q,
        (Err(fast_qr::qr::QRCodeError::EncodedData), Err("too-big")) => return,
        (Err(fast_qr::qr::QRCodeError::SpecifiedVersion), Err("too-small")) => return,
        (got, want) => {
            if enabled("C05") {
                violation("C05", "wrong-outcome", format!("expected {want:?}, crate returned {} {}", match got { Ok(q) => format!("Ok(size {})", q.size), Err(e) => format!("Err({e:?})") }, describe()));
            }
            return;
        }
    };
    let want_v = *want.as_ref().unwrap();
    let n = qr.size;
    if enabled("C05") && n != 17 + 4 * want_v {
        violation("C05", "wrong-version", format!("symbol side {n}, expected version {want_v} {}", describe()));
    }
    if n < 21 || (n - 17) % 4 != 0 || n > 177 {
        return;
    }
    let mut m = Matrix::new(n);
    for r in 0..n {
        for c in 0..n {
            m.set(r, c, qr.data[r * n + c].value());
        }
    }
    if enabled("C09") && mode.is_none() {
        let got = qr.mode.map(|x| match x {
            Mode::Numeric => 0,
            Mode::Alphanumeric => 1,
            Mode::Byte => 2,
        });
        if got != Some(class) {
            violation("C09", "wrong-mode", format!("input is class {}, automatic mode reported {:?} {}", tables::MODE_NAMES[class], got, describe()));
        }
    }
    let dec = match decode::decode(&m) {
        Ok(d) => d,
        Err(e) => {
            if enabled("C01") {
                violation("C01", "decode-failed", format!("{e} {}", describe()));
            }
            return;
        }
    };
    if enabled("C04") {
        if dec.readout.level != eff_level || qr.ecl.map(level_no) != Some(eff_level) {
            violation("C04", "level", format!("format information says level {}, field says {:?}, in effect {} {}", dec.readout.level, qr.ecl.map(level_no), eff_level, describe()));
        }
        if let Some(f) = mask {
            if dec.readout.mask != f {
                violation("C04", "forced-mask", format!("format information says mask {}, forced {f} {}", dec.readout.mask, describe()));
            }
        }
    }
    if enabled("C01") && (dec.parsed.segments.len() != 1 || dec.parsed.segments[0].bytes != payload) {
        violation("C01", "decode-mismatch", format!("decoded {} segment(s), first {} bytes; input {} bytes {}", dec.parsed.segments.len(), dec.parsed.segments.first().map_or(0, |s| s.bytes.len()), payload.len(), describe()));
    }
    if enabled("C09") && mode.is_none() && dec.parsed.segments.first().map(|s| s.mode) != Some(class) {
        violation("C09", "wrong-mode-indicator", format!("mode indicator {:?}, class {} {}", dec.parsed.segments.first().map(|s| s.mode), class, describe()));
    }
    if enabled("C02") {
        for (bi, blk) in dec.readout.blocks.iter().enumerate() {
            let whole = blk.whole();
            let s = gf::syndromes(&whole, blk.ec.len());
            if s.iter().any(|&x| x != 0) {
                violation("C02", "syndrome-nonzero", format!("block {bi} of {} {}", dec.readout.blocks.len(), describe()));
            }
        }
        if dec.readout.remainder.iter().any(|&b| b) {
            violation("C02", "remainder-nonzero", describe());
        }
    }
    if enabled("C06") {
        match segment::data_codewords(eff_mode, want_v, eff_level, payload) {
            Ok(want_cw) => {
                let got = dec.readout.data_codewords();
                if got != want_cw {
                    let at = got.iter().zip(&want_cw).position(|(a, b)| a != b).unwrap_or(0);
                    violation("C06", "bitstream-mismatch", format!("data codeword {at} is {:#04x}, ISO 7.4 says {:#04x} {}", got.get(at).copied().unwrap_or(0), want_cw.get(at).copied().unwrap_or(0), describe()));
                }
            }
            Err(_) => {}
        }
    }
});
