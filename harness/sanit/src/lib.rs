//! Deterministic workload shared by the sanitizer stages and the native harness.
//! `exec` runs one job against the real fast_qr and folds everything observable into a
//! digest; the sanitizer-instrumented / Miri-interpreted execution must print exactly the
//! digests the native harness computes for the same jobs.

use fast_qr::convert::svg::SvgBuilder;
use fast_qr::convert::{Builder, Shape};
use fast_qr::{Mask, Mode, QRBuilder, Version, ECL};

pub const VERSIONS: [Version; 40] = [
    Version::V01, Version::V02, Version::V03, Version::V04, Version::V05, Version::V06, Version::V07, Version::V08,
    Version::V09, Version::V10, Version::V11, Version::V12, Version::V13, Version::V14, Version::V15, Version::V16,
    Version::V17, Version::V18, Version::V19, Version::V20, Version::V21, Version::V22, Version::V23, Version::V24,
    Version::V25, Version::V26, Version::V27, Version::V28, Version::V29, Version::V30, Version::V31, Version::V32,
    Version::V33, Version::V34, Version::V35, Version::V36, Version::V37, Version::V38, Version::V39, Version::V40,
];
pub const LEVELS: [ECL; 4] = [ECL::L, ECL::M, ECL::Q, ECL::H];
pub const MASKS: [Mask; 8] = [
    Mask::Checkerboard, Mask::HorizontalLines, Mask::VerticalLines, Mask::DiagonalLines,
    Mask::LargeCheckerboard, Mask::Fields, Mask::Diamonds, Mask::Meadow,
];
pub const MODES: [Mode; 3] = [Mode::Numeric, Mode::Alphanumeric, Mode::Byte];
pub const SHAPES: [Shape; 6] = [Shape::Square, Shape::Circle, Shape::RoundedSquare, Shape::Vertical, Shape::Horizontal, Shape::Diamond];

pub struct Rng(pub u64);
impl Rng {
    pub fn next(&mut self) -> u64 {
        self.0 = self.0.wrapping_add(0x9E37_79B9_7F4A_7C15);
        let mut z = self.0;
        z = (z ^ (z >> 30)).wrapping_mul(0xBF58_476D_1CE4_E5B9);
        z = (z ^ (z >> 27)).wrapping_mul(0x94D0_49BB_1331_11EB);
        z ^ (z >> 31)
    }
    pub fn below(&mut self, n: usize) -> usize {
        (self.next() % n as u64) as usize
    }
}

#[derive(Clone, Debug)]
pub struct SJob {
    pub id: usize,
    pub input: Vec<u8>,
    pub mode: Option<usize>,
    pub level: Option<usize>,
    pub version: Option<usize>,
    pub mask: Option<usize>,
    /// bit 0 terminal string, bit 1 SVG, bit 2 PNG (only with feature `image`)
    pub render: u8,
    pub shape: usize,
    pub margin: usize,
}

const ALNUM: &[u8; 45] = b"0123456789ABCDEFGHIJKLMNOPQRSTUVWXYZ $%*+-./:";

/// kind: "large" = one forced big version per job (5..=40), "small" = versions 1..=4 (Miri-sized), "mixed" = versions up to 12 with PNG,
/// "render" = PNG-heavy. The list depends only on (kind, seed, n).
pub fn workload(kind: &str, seed: u64, n: usize) -> Vec<SJob> {
    let mut rng = Rng(seed ^ 0x5a17);
    let mut out = Vec::with_capacity(n);
    if kind == "large" {
        // one build per job at a forced large version (every fixed-size work buffer is walked to its
        // far end: 177x177 matrix, 3706 codewords, 81 blocks): sized so that one job = one Miri process
        const BIG: [usize; 16] = [40, 36, 32, 27, 24, 21, 18, 16, 14, 12, 10, 9, 8, 7, 6, 5];
        for id in 0..n {
            let v = BIG[id % 16];
            let class = rng.below(3);
            let len = rng.below(6 * v + 1);
            let input: Vec<u8> = (0..len)
                .map(|_| match class {
                    0 => b'0' + rng.below(10) as u8,
                    1 => ALNUM[rng.below(45)],
                    _ => rng.next() as u8,
                })
                .collect();
            out.push(SJob {
                id,
                input,
                mode: if rng.below(2) == 0 { Some(class.max(rng.below(3))) } else { None },
                level: Some(rng.below(4)),
                version: Some(v),
                mask: if id % 4 == 3 { Some(rng.below(8)) } else { None },
                render: if v <= 12 { 3 } else { (id % 2) as u8 },
                shape: rng.below(6),
                margin: rng.below(6),
            });
        }
        return out;
    }
    for id in 0..n {
        let class = rng.below(3);
        let (max_len, vmax) = match kind {
            "small" => (40, 4),
            "render" => (300, 40),
            _ => (150, 12),
        };
        let len = if id % 7 == 0 { 0 } else { rng.below(max_len) };
        let input: Vec<u8> = (0..len)
            .map(|_| match class {
                0 => b'0' + rng.below(10) as u8,
                1 => ALNUM[rng.below(45)],
                _ => rng.next() as u8,
            })
            .collect();
        let forced_version = if rng.below(3) == 0 { Some(1 + rng.below(vmax)) } else { None };
        out.push(SJob {
            id,
            input,
            mode: if rng.below(2) == 0 { Some(class.max(rng.below(3))) } else { None },
            level: if rng.below(4) == 0 { None } else { Some(rng.below(4)) },
            version: forced_version,
            mask: if rng.below(2) == 0 { Some(rng.below(8)) } else { None },
            render: match kind {
                "small" => [1u8, 2, 3, 0][id % 4],
                "render" => 4 | [0u8, 2][id % 2],
                _ => [1u8, 2, 4, 7][id % 4],
            },
            shape: rng.below(6),
            margin: rng.below(6),
        });
    }
    out
}

fn fnv(h: &mut u64, bytes: &[u8]) {
    for &b in bytes {
        *h ^= b as u64;
        *h = h.wrapping_mul(0x0000_0100_0000_01B3);
    }
}

/// The RoundedSquare layer gets stroke attributes only if a comparison of two function
/// pointers (`command as usize == Shape::rounded_square as usize`, src/convert/svg.rs) comes
/// out equal. Function addresses are not guaranteed unique or stable (rustc warns about it, and
/// Miri deliberately gives every cast a fresh address), so the presence of the stroke
/// attributes legitimately differs between an interpreted and a native run. No property speaks
/// about them; they are removed before hashing so that the differential check stays sound.
pub fn strip_stroke(svg: &str) -> String {
    const PAT: &str = "\" stroke-width=\".3\" stroke-linejoin=\"round\" stroke=\"";
    let mut out = String::with_capacity(svg.len());
    let mut rest = svg;
    while let Some(i) = rest.find(PAT) {
        out.push_str(&rest[..i]);
        let after = &rest[i + PAT.len()..];
        match after.find('"') {
            Some(q) => rest = &after[q..],
            None => {
                rest = after;
                break;
            }
        }
    }
    out.push_str(rest);
    out
}

/// Execute one job; returns a digest of everything observable.
pub fn exec(job: &SJob) -> u64 {
    let mut h = 0xcbf2_9ce4_8422_2325u64;
    let mut b = QRBuilder::new(job.input.clone());
    if let Some(m) = job.mode {
        b.mode(MODES[m]);
    }
    if let Some(l) = job.level {
        b.ecl(LEVELS[l]);
    }
    if let Some(v) = job.version {
        b.version(VERSIONS[v - 1]);
    }
    if let Some(m) = job.mask {
        b.mask(MASKS[m]);
    }
    match b.build() {
        Err(fast_qr::qr::QRCodeError::EncodedData) => fnv(&mut h, b"E1"),
        Err(fast_qr::qr::QRCodeError::SpecifiedVersion) => fnv(&mut h, b"E2"),
        Ok(qr) => {
            fnv(&mut h, b"OK");
            let n = qr.size;
            fnv(&mut h, &(n as u32).to_le_bytes());
            let raw: Vec<u8> = qr.data[..n * n].iter().map(|m| m.0).collect();
            fnv(&mut h, &raw);
            // the tail must stay at its default
            let tail_dirty = qr.data[n * n..].iter().filter(|m| m.0 != 0).count();
            fnv(&mut h, &(tail_dirty as u32).to_le_bytes());
            fnv(&mut h, &[qr.version.map_or(255, |v| v as u8), qr.ecl.map_or(255, |v| v as u8), qr.mask.map_or(255, |v| v as u8)]);
            if job.render & 1 != 0 {
                fnv(&mut h, qr.to_str().as_bytes());
            }
            if job.render & 2 != 0 {
                let svg = SvgBuilder::default().margin(job.margin).shape(SHAPES[job.shape]).to_str(&qr);
                fnv(&mut h, strip_stroke(&svg).as_bytes());
            }
            #[cfg(feature = "image")]
            if job.render & 4 != 0 {
                use fast_qr::convert::image::ImageBuilder;
                let px = ImageBuilder::default().margin(job.margin).shape(SHAPES[job.shape]).fit_width(((n + 2 * job.margin) * 3) as u32).to_pixmap(&qr);
                fnv(&mut h, &px.width().to_le_bytes());
                fnv(&mut h, px.data());
            }
        }
    }
    h
}

pub fn image_enabled() -> bool {
    cfg!(feature = "image")
}
