//! usage: sanit <kind> <seed> <n> <shard> <nshards> <threads>
//! Prints "D <id> <digest>" for every job of the shard; with threads > 1 every thread runs
//! all jobs of the shard in its own order and "MISMATCH <id>" is printed if two threads
//! disagree (a data race or hidden shared state would show up here and in TSan/Miri).

use sanit::{exec, workload, Rng};
use std::sync::Mutex;

fn main() {
    let a: Vec<String> = std::env::args().collect();
    if a.len() < 7 {
        eprintln!("usage: sanit <kind> <seed> <n> <shard> <nshards> <threads>");
        std::process::exit(2);
    }
    let kind = a[1].as_str();
    let seed: u64 = a[2].parse().expect("seed");
    let n: usize = a[3].parse().expect("n");
    let shard: usize = a[4].parse().expect("shard");
    let nshards: usize = a[5].parse().expect("nshards");
    let threads: usize = a[6].parse().expect("threads");
    let jobs: Vec<_> = workload(kind, seed, n).into_iter().filter(|j| j.id % nshards == shard).collect();
    println!("START kind={kind} jobs={} threads={threads} image={}", jobs.len(), sanit::image_enabled());
    if threads <= 1 {
        for j in &jobs {
            println!("D {} {:016x}", j.id, exec(j));
        }
    } else {
        let results: Mutex<Vec<Vec<(usize, u64)>>> = Mutex::new(Vec::new());
        std::thread::scope(|s| {
            for t in 0..threads {
                let jobs = &jobs;
                let results = &results;
                std::thread::Builder::new()
                    .stack_size(16 << 20)
                    .spawn_scoped(s, move || {
                        let mut order: Vec<usize> = (0..jobs.len()).collect();
                        let mut rng = Rng(seed ^ (t as u64).wrapping_mul(0x9E37));
                        for i in (1..order.len()).rev() {
                            order.swap(i, rng.below(i + 1));
                        }
                        let mut out = Vec::with_capacity(order.len());
                        for &i in &order {
                            out.push((jobs[i].id, exec(&jobs[i])));
                            std::thread::yield_now();
                        }
                        results.lock().unwrap().push(out);
                    })
                    .expect("spawn");
            }
        });
        let mut all = results.into_inner().unwrap();
        for r in all.iter_mut() {
            r.sort();
        }
        for k in 0..jobs.len() {
            let (id, d) = all[0][k];
            if all.iter().any(|r| r[k] != (id, d)) {
                println!("MISMATCH {id}");
            }
            println!("D {id} {d:016x}");
        }
    }
    println!("END");
}
