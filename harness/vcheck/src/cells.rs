//! Workload vocabulary shared by the symbol-level properties.

use oracle::tables::Caps;

/// 0, 1, cap(v-1)+1, cap(v)-1, cap(v): the lengths at which version v is entered and filled.
pub fn boundary_lengths(caps: &Caps, v: usize, level: usize, class: usize) -> Vec<usize> {
    let cap = caps.cap(v, level, class);
    let lo = if v > 1 { caps.cap(v - 1, level, class) + 1 } else { 0 };
    let mut out = vec![0, 1, lo, cap.saturating_sub(1), cap];
    out.retain(|&l| l <= cap);
    out.sort();
    out.dedup();
    out
}

/// forced mask 0..=7, or None (automatic) every ninth index
pub fn rotate_mask(i: usize) -> Option<usize> {
    if i % 9 == 8 {
        None
    } else {
        Some(i % 9)
    }
}

/// lengths for which version v is the smallest sufficient one: cap(v-1)+1 ..= cap(v)
pub fn native_range(caps: &Caps, v: usize, level: usize, class: usize) -> (usize, usize) {
    let lo = if v > 1 { caps.cap(v - 1, level, class) + 1 } else { 0 };
    (lo, caps.cap(v, level, class))
}

pub fn cell_id(v: usize, level: usize) -> u64 {
    (v * 4 + level) as u64
}
