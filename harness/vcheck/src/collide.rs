//! Pairs of different byte arrays that collide under popular cheap fingerprints. A cache or memo that is
//! keyed on such a fingerprint instead of on the content hands the second array the first one's result;
//! with random inputs a collision between two consecutive calls has probability 2^-32 and is never
//! observed, so the pairs are constructed: a birthday search over 2^18 variants of one array finds a
//! collision for any 32-bit function in a few milliseconds (the 16-bit ones collide almost at once).
//! The list is what people actually reach for when they want "something cheap": FNV, CRC, Adler,
//! djb2/sdbm/Java-style polynomial hashes, Jenkins one-at-a-time, MurmurHash3, sums and xors.

use std::collections::HashMap;

pub const HASH_NAMES: [&str; 14] = ["fnv1a-32", "fnv1-32", "crc32", "adler32", "djb2", "sdbm", "java31", "jenkins-oaat", "murmur3-32", "sum32", "xor8-len", "crc16-ccitt", "fletcher16", "fnv1a-64-folded"];

pub fn hash(id: usize, d: &[u8]) -> u64 {
    match id {
        0 => d.iter().fold(0x811c_9dc5u32, |h, &b| (h ^ b as u32).wrapping_mul(0x0100_0193)) as u64,
        1 => d.iter().fold(0x811c_9dc5u32, |h, &b| h.wrapping_mul(0x0100_0193) ^ b as u32) as u64,
        2 => {
            let mut c = 0xffff_ffffu32;
            for &b in d {
                c ^= b as u32;
                for _ in 0..8 {
                    c = if c & 1 != 0 { (c >> 1) ^ 0xedb8_8320 } else { c >> 1 };
                }
            }
            (!c) as u64
        }
        3 => {
            let (mut a, mut b) = (1u32, 0u32);
            for &x in d {
                a = (a + x as u32) % 65521;
                b = (b + a) % 65521;
            }
            ((b << 16) | a) as u64
        }
        4 => d.iter().fold(5381u32, |h, &b| h.wrapping_mul(33).wrapping_add(b as u32)) as u64,
        5 => d.iter().fold(0u32, |h, &b| (b as u32).wrapping_add(h << 6).wrapping_add(h << 16).wrapping_sub(h)) as u64,
        6 => d.iter().fold(0u32, |h, &b| h.wrapping_mul(31).wrapping_add(b as u32)) as u64,
        7 => {
            let mut h = 0u32;
            for &b in d {
                h = h.wrapping_add(b as u32);
                h = h.wrapping_add(h << 10);
                h ^= h >> 6;
            }
            h = h.wrapping_add(h << 3);
            h ^= h >> 11;
            h.wrapping_add(h << 15) as u64
        }
        8 => {
            let (c1, c2) = (0xcc9e_2d51u32, 0x1b87_3593u32);
            let mut h = 0u32;
            let mut chunks = d.chunks_exact(4);
            for c in &mut chunks {
                let mut k = u32::from_le_bytes([c[0], c[1], c[2], c[3]]);
                k = k.wrapping_mul(c1).rotate_left(15).wrapping_mul(c2);
                h = (h ^ k).rotate_left(13).wrapping_mul(5).wrapping_add(0xe654_6b64);
            }
            let r = chunks.remainder();
            let mut k = 0u32;
            for (i, &b) in r.iter().enumerate() {
                k |= (b as u32) << (8 * i);
            }
            if !r.is_empty() {
                h ^= k.wrapping_mul(c1).rotate_left(15).wrapping_mul(c2);
            }
            h ^= d.len() as u32;
            h ^= h >> 16;
            h = h.wrapping_mul(0x85eb_ca6b);
            h ^= h >> 13;
            h = h.wrapping_mul(0xc2b2_ae35);
            (h ^ (h >> 16)) as u64
        }
        9 => d.iter().fold(0u32, |h, &b| h.wrapping_add(b as u32)) as u64,
        10 => (d.iter().fold(0u8, |h, &b| h ^ b) as u64) << 32 | d.len() as u64,
        11 => {
            let mut c = 0xffffu16;
            for &b in d {
                c ^= (b as u16) << 8;
                for _ in 0..8 {
                    c = if c & 0x8000 != 0 { (c << 1) ^ 0x1021 } else { c << 1 };
                }
            }
            c as u64
        }
        12 => {
            let (mut a, mut b) = (0u16, 0u16);
            for &x in d {
                a = (a + x as u16) % 255;
                b = (b + a) % 255;
            }
            ((b << 8) | a) as u64
        }
        _ => {
            let h = d.iter().fold(0xcbf2_9ce4_8422_2325u64, |h, &b| (h ^ b as u64).wrapping_mul(0x0000_0100_0000_01b3));
            (h ^ (h >> 32)) & 0xffff_ffff
        }
    }
}

/// Birthday search: `make(i)` yields the i-th variant of an array; returns two indices whose arrays differ
/// but have the same fingerprint `id`, or None after `limit` variants.
pub fn find_pair(id: usize, limit: u64, make: impl Fn(u64) -> Vec<u8>) -> Option<(u64, u64)> {
    let mut seen: HashMap<u64, u64> = HashMap::with_capacity(limit.min(1 << 18) as usize);
    for i in 0..limit {
        let a = make(i);
        let h = hash(id, &a);
        if let Some(&j) = seen.get(&h) {
            if make(j) != a {
                return Some((j, i));
            }
        } else {
            seen.insert(h, i);
        }
    }
    None
}
