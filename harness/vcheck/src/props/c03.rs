//! C03 — function patterns and symbol geometry are exact for all 40 versions.

use crate::adapter::{self, Outcome};
use crate::fw::{flag, Ctx, Report};
use crate::job::{Job, GEN_COUNT};
use crate::pool;
use crate::stats::Stats;
use crate::symbol;
use oracle::rng::mix;
use serde_json::json;

pub const ID: &str = "C03";
pub const FAMS: [&str; 3] = ["cell", "auto-mask", "big-then-small"];

pub fn jobs(ctx: &Ctx) -> Vec<Job> {
    let caps = &ctx.caps;
    let mut jobs = Vec::new();
    let mut k = 0usize;
    let payloads = ctx.tier.pick(6, ctx.scale(400));
    for v in 1..=40usize {
        for level in 0..4usize {
            for mask in 0..8usize {
                for p in 0..payloads {
                    k += 1;
                    let class = if p == 0 { 2 } else { k % 3 };
                    let cap = caps.cap(v, level, class);
                    let len = match p {
                        0 => cap,
                        1 => 0,
                        _ => (mix(ctx.seed, k as u64) as usize) % (cap + 1),
                    };
                    jobs.push(Job {
                        fam: FAMS[0],
                        class,
                        mode: Some(class),
                        level: Some(level),
                        version: Some(v),
                        mask: Some(mask),
                        len,
                        gen: k % GEN_COUNT,
                        seed: mix(ctx.seed, k as u64),
                        ..Default::default()
                    });
                }
            }
            // automatic mask, automatic version at capacity
            k += 1;
            jobs.push(Job {
                fam: FAMS[1],
                class: 2,
                mode: None,
                level: Some(level),
                version: None,
                mask: None,
                len: caps.cap(v, level, 2),
                gen: k % GEN_COUNT,
                seed: mix(ctx.seed, k as u64),
                ..Default::default()
            });
        }
        // a large symbol then a small one on the same thread: a stale tail would show
        k += 1;
        jobs.push(Job {
            fam: FAMS[2],
            class: 2,
            mode: Some(2),
            level: Some(k % 4),
            version: Some(v),
            mask: None,
            len: 1,
            gen: 0,
            seed: mix(ctx.seed, k as u64),
            aux: [40 - (v as i64 % 7), 0, 0, 0],
            ..Default::default()
        });
    }
    jobs
}

pub fn observe(ctx: &Ctx, st: &mut Stats, job: &Job) {
    if job.fam == FAMS[2] {
        // build the big one first, drop it, then the job's own symbol
        let big = Job { version: Some(job.aux[0] as usize), len: ctx.caps.cap(job.aux[0] as usize, job.level.unwrap(), 2), gen: 2, ..job.clone() };
        let _ = adapter::build(&big.config());
        st.count("big_then_small_sequences", 1);
    }
    let cfg = job.config();
    st.eval();
    let exp = match symbol::expect(&cfg, &ctx.caps) {
        Ok(e) => e,
        Err(why) => {
            st.inconclusive(format!("workload bug ({why}): {}", cfg.describe()));
            return;
        }
    };
    let qr = match adapter::build(&cfg) {
        Outcome::Ok(q) => q,
        other => {
            flag(st, ID, ("no-symbol".into(), format!("a symbol exists (v{}), crate returned {}", exp.version, other.describe())), job, false);
            return;
        }
    };
    if qr.size != 17 + 4 * exp.version {
        flag(st, ID, ("size".into(), format!("side {} for version {}, ISO says {}", qr.size, exp.version, 17 + 4 * exp.version)), job, false);
        return;
    }
    match symbol::check_function_patterns(&qr, exp.version) {
        Ok(n) => st.count("function_modules_compared", n),
        Err(v) => {
            let m = adapter::matrix_of(&qr);
            let mask = qr.mask.map(adapter::mask_no).unwrap_or(0);
            let agrees = symbol::second_opinion_agrees(&m, exp.mode, exp.version, exp.level, mask, &cfg.input);
            flag(st, ID, v, job, agrees);
            return;
        }
    }
    match symbol::check_tail(&qr) {
        Ok(n) => st.count("tail_elements_inspected", n),
        Err(v) => {
            flag(st, ID, v, job, false);
            return;
        }
    }
    let mask = qr.mask.map(adapter::mask_no).unwrap_or(9);
    st.reach("version_level_mask", ((exp.version * 4 + exp.level) * 8 + mask) as u64);
    st.reach("versions", exp.version as u64);
    st.count("alignment_patterns_checked", oracle::layout::region_map(exp.version).alignment_count as u64);
    st.distinct(job.key(&cfg.input));
    st.sample(211, || json!({"options": cfg.describe(), "input": adapter::short_hex(&cfg.input), "size": qr.size}));
}

pub fn run(ctx: &Ctx) -> Report {
    let jobs = jobs(ctx);
    let st = pool::run(&jobs, ctx.remaining(), |st, job, i| {
        observe(ctx, st, job);
        // every fifth job is followed, on the same thread, by a sibling: same payload, one option changed
        if i % 5 == 0 {
            if let Some(sib) = job.sibling(&ctx.caps) {
                let before = st.violations.len();
                observe(ctx, st, &sib);
                st.count("sibling_builds_same_payload_other_option", 1);
                for v in &mut st.violations[before..] {
                    v.detail = format!("{} (sibling run: same payload as the job before it on this thread, one option changed; the fault may depend on that history)", v.detail);
                }
            }
        }
    });
    let mut rep = Report::new(
        st,
        "jobs = every (version, level, forced mask) cell (1280, enumerated completely) x {capacity-filling, empty} payloads (thorough: + random lengths over 7 payload generators), + automatic-mask/automatic-version builds per (version, level), + big-then-small build sequences on one thread; every finder/separator/timing/alignment/dark-module coordinate of the result is compared with the oracle region map built from ISO 6.3 + Annex E, and every element of the backing array beyond size^2 with the default module; distinct key = (options, len, payload hash); every case is non-trivial (a full symbol is inspected)",
    );
    rep.exhaustive = Some(true);
    rep.expected_sets = vec![("version_level_mask", 1280), ("versions", 40)];
    rep.required_sets = vec![("version_level_mask", 1280)];
    rep.min_evaluations = 2560;
    rep.assumptions = vec![
        "exhaustive refers to the (version, level, mask) configuration space; payloads are sampled".into(),
        "Annex E alignment table transcribed by hand, cross-checked against its generating formula and the qrcode crate".into(),
    ];
    rep
}

pub fn replay(ctx: &Ctx, job: &serde_json::Value) -> Option<Stats> {
    let job = Job::from_json(job, &FAMS)?;
    let mut st = Stats::new();
    observe(ctx, &mut st, &job);
    Some(st)
}
