//! C02 — error-correction blocks are valid RS codewords with the ISO block layout.

use crate::adapter::{self, Outcome};
use crate::cells::{cell_id, rotate_mask};
use crate::fw::{flag, Ctx, Report, Tier};
use crate::job::{Job, GEN_RAMP, GEN_RANDOM};
use crate::pool;
use crate::stats::Stats;
use crate::symbol;
use oracle::decode::{self, Block};
use oracle::layout::region_map;
use oracle::rng::{mix, Rng};
use oracle::{gf, segment};
use serde_json::json;

pub const ID: &str = "C02";
pub const FAMS: [&str; 7] = ["cell-full", "cell-short", "cell-random", "crafted-blocks", "fingerprint-collision-pair", "no-level-given", "long-history"];

pub fn jobs(ctx: &Ctx) -> Vec<Job> {
    let caps = &ctx.caps;
    let mut jobs = Vec::new();
    let mut k = 0usize;
    let per_cell = ctx.tier.pick(6, ctx.scale(800));
    let mut rng = Rng::new(ctx.seed ^ 0xc02);
    for v in 1..=40usize {
        for level in 0..4usize {
            // data codewords with prescribed per-block shapes: every block the padding pattern, the padding
            // pattern except one byte, zero blocks after the first, one zero block in the middle, identical
            // blocks, short block == head of long block, leading zeros in every block
            for sh in 0..crate::craft::CW_SHAPE_COUNT {
                k += 1;
                jobs.push(Job::crafted(FAMS[3], crate::job::CRAFT_SHAPE, sh, v, level, rotate_mask(k + v), mix(ctx.seed, k as u64)));
            }
            for (fi, fam) in FAMS.iter().take(3).enumerate() {
                let reps = if fi == 2 { per_cell } else { 1 };
                for _ in 0..reps {
                    k += 1;
                    let class = if fi == 0 { 2 } else { k % 3 };
                    let cap = caps.cap(v, level, class);
                    let len = match fi {
                        0 => cap,
                        1 => (cap / 3).max(1),
                        _ => rng.below(cap + 1),
                    };
                    jobs.push(Job {
                        fam,
                        class,
                        mode: Some(class),
                        level: Some(level),
                        version: Some(v),
                        mask: rotate_mask(k + v),
                        len,
                        // block permutations must stay visible in the full/short families (non-periodic content);
                        // the random family also takes constant, zero-run, periodic and token payloads
                        gen: if fi == 2 && k % 3 == 0 { k % crate::job::GEN_COUNT } else if k % 2 == 0 { GEN_RANDOM } else { GEN_RAMP },
                        seed: mix(ctx.seed, k as u64),
                        ..Default::default()
                    });
                }
            }
        }
    }
    // no level given: the symbol is a level-Q symbol (format information and block layout alike), also when the
    // version is pinned and the payload would fit a stronger level in it
    for v in 1..=40usize {
        for i in 0..4usize {
            k += 1;
            let class = (k + i) % 3;
            let h = caps.cap(v, oracle::tables::H, class);
            let q = caps.cap(v, oracle::tables::Q, class);
            let len = [h, (h / 2).max(1), q, h.saturating_sub(1)][i];
            let version = if i == 2 && k % 2 == 0 { None } else { Some(v) };
            let len = if version.is_none() { crate::cells::native_range(caps, v, oracle::tables::Q, class).1 } else { len };
            jobs.push(Job { fam: FAMS[5], class, mode: if k % 3 == 0 { None } else { Some(class) }, level: None, version, mask: rotate_mask(k + v), len, gen: if k % 2 == 0 { GEN_RANDOM } else { GEN_RAMP }, seed: mix(ctx.seed, k as u64), ..Default::default() });
        }
    }
    // long single-thread build histories: a bigger symbol, then a run of exactly 254..258 / 510..514 (thorough, one history:
    // 65,534..65,538) builds of the smallest symbols, then a symbol WITH remainder bits that is smaller than the first one - every
    // build of the run is checked like any other. Lazy clearing by generation stamps, counters that wrap after 2^8 or
    // 2^16 builds and "high-water marks" only show after that many calls on one thread, which a shuffled pool never makes.
    for i in 0..ctx.tier.pick(10usize, 40) {
        k += 1;
        jobs.push(Job { fam: FAMS[6], class: 2, mode: Some(2), level: Some(i % 4), version: Some(2 + i % 5), mask: rotate_mask(k), len: 3, gen: 0, seed: mix(ctx.seed, k as u64 ^ 0x10e6), aux: [if i == 0 && ctx.tier == crate::fw::Tier::Thorough { 65_536 } else if i % 2 == 1 { 256 } else { 512 }, 0, 0, 0], ..Default::default() });
    }
    // pairs of different payloads of one length whose DATA CODEWORDS (or whose bytes) collide under a popular cheap
    // fingerprint (collide.rs), built one right after the other on the same thread with the same options:
    // aux[0] = hash id, aux[1] = 0 codewords / 1 payload bytes are the hashed object
    for h in 0..crate::collide::HASH_NAMES.len() {
        for obj in 0..2i64 {
            for rep in 0..ctx.tier.pick(1usize, 6) {
                k += 1;
                let v = [2usize, 3, 4, 5, 7, 6][(h + rep) % 6];
                let level = (h + obj as usize + rep) % 4;
                jobs.push(Job { fam: FAMS[4], class: 2, mode: Some(2), level: Some(level), version: Some(v), mask: rotate_mask(k), len: caps.cap(v, level, 2).min(30), gen: 0, seed: mix(ctx.seed, k as u64), aux: [h as i64, obj, 0, 0], ..Default::default() });
            }
        }
    }
    jobs
}

/// family "fingerprint-collision-pair": find the pair, then judge both builds like any other
fn observe_pair(ctx: &Ctx, st: &mut Stats, job: &Job) {
    let (h, on_bytes) = (job.aux[0] as usize, job.aux[1] == 1);
    let (v, level) = (job.version.unwrap(), job.level.unwrap());
    let len = job.len;
    let base: Vec<u8> = {
        let mut rng = Rng::new(job.seed);
        let mut p: Vec<u8> = b"https://e.com/t/".iter().copied().take(len.saturating_sub(8)).collect();
        while p.len() < len {
            p.push(b'a' + rng.below(26) as u8);
        }
        p
    };
    // variants: the last 8 bytes are lower-case letters / digits derived from the index
    let make_payload = |i: u64| -> Vec<u8> {
        let mut p = base.clone();
        let mut x = oracle::rng::mix(job.seed ^ 0x9a17, i);
        let n = p.len();
        for q in p[n - 8..].iter_mut() {
            *q = b"abcdefghijklmnopqrstuvwxyz0123456789"[(x % 36) as usize];
            x /= 36;
        }
        if oracle::tables::classify(&p) != 2 {
            p[n - 1] = b'z';
        }
        p
    };
    let make = |i: u64| -> Vec<u8> {
        let p = make_payload(i);
        if on_bytes {
            p
        } else {
            oracle::segment::data_codewords(2, v, level, &p).unwrap_or(p)
        }
    };
    let pair = match crate::collide::find_pair(h, 1 << 18, make) {
        Some(p) => p,
        None => {
            st.count("collision_searches_without_result", 1);
            return;
        }
    };
    for (first, second) in [(pair.0, pair.1), (pair.1, pair.0)] {
        for i in [first, second] {
            let j = Job { fam: FAMS[2], payload: Some(make_payload(i)), aux: [0; 4], ..job.clone() };
            let before = st.violations.len();
            observe(ctx, st, &j);
            if st.violations.len() > before {
                for vio in &mut st.violations[before..] {
                    vio.detail = format!("{} (one of two payloads whose {} collide under {}, built right after the other on the same thread)", vio.detail, if on_bytes { "bytes" } else { "data codewords" }, crate::collide::HASH_NAMES[h]);
                    vio.job = job.to_json();
                }
                return;
            }
        }
    }
    st.count("fingerprint_collision_pairs_checked", 1);
    st.reach("collision_hashes", h as u64);
}

pub fn observe(ctx: &Ctx, st: &mut Stats, job: &Job) {
    if job.fam == FAMS[4] {
        return observe_pair(ctx, st, job);
    }
    if job.fam == FAMS[6] {
        // version b (2..6: remainder bits) after a bigger version a and a run of V1 builds whose length walks around the
        // wrap point; three cycles so that the total number of builds on this thread since the big one passes the wrap
        // point at -2 .. +2
        let mut rng = Rng::new(job.seed);
        let wrap = job.aux[0] as usize;
        let b = job.version.unwrap();
        for delta in [-2i64, -1, 0, 1, 2] {
            let a = (b + 1 + rng.below(8)).min(40);
            let mut seq: Vec<Job> = Vec::new();
            seq.push(Job { fam: FAMS[2], version: Some(a), len: ctx.caps.cap(a, job.level.unwrap(), 2), gen: GEN_RANDOM, seed: rng.next_u64(), aux: [0; 4], ..job.clone() });
            let run = (wrap as i64 + delta - 1).max(1) as usize;
            for _ in 0..run {
                seq.push(Job { fam: FAMS[2], version: Some(1), len: 1 + rng.below(6), gen: GEN_RAMP, seed: rng.next_u64(), aux: [0; 4], ..job.clone() });
            }
            seq.push(Job { fam: FAMS[2], version: Some(b), len: 1 + rng.below(ctx.caps.cap(b, job.level.unwrap(), 2)), gen: GEN_RANDOM, seed: rng.next_u64(), aux: [0; 4], ..job.clone() });
            for (i, j) in seq.iter().enumerate() {
                let before = st.violations.len();
                // the run itself is thinned in the evidence, not in the execution: every build is checked
                observe(ctx, st, j);
                if st.violations.len() > before {
                    for v in &mut st.violations[before..] {
                        v.detail = format!("{} (build {i} of a single-thread history: version {a}, then {run} builds of version 1, then version {b})", v.detail);
                        v.job = job.to_json();
                    }
                    return;
                }
            }
            st.count("long_history_builds_checked", seq.len() as u64);
        }
        st.max("longest_run_of_small_builds_between_two_bigger_ones", (wrap + 1) as u64);
        return;
    }
    let cfg = job.config();
    st.eval();
    let exp = match symbol::expect(&cfg, &ctx.caps) {
        Ok(e) => e,
        Err(why) => {
            st.inconclusive(format!("workload bug ({why}): {}", cfg.describe()));
            return;
        }
    };
    let qr = match adapter::build(&cfg) {
        Outcome::Ok(q) => q,
        other => {
            flag(st, ID, ("no-symbol".into(), format!("a symbol exists (v{}), crate returned {}", exp.version, other.describe())), job, false);
            return;
        }
    };
    let m = adapter::matrix_of(&qr);
    let mask = qr.mask.map(adapter::mask_no).unwrap_or(0);
    let second = |m: &decode::Matrix| symbol::second_opinion_agrees(m, exp.mode, exp.version, exp.level, mask, &cfg.input);
    let ro = match decode::read(&m) {
        Ok(r) => r,
        Err(e) => {
            flag(st, ID, ("read-failed".into(), e), job, second(&m));
            return;
        }
    };
    if ro.version != exp.version || ro.level != exp.level {
        flag(st, ID, ("layout-parameters".into(), format!("symbol reads as v{} level {}, expected v{} level {}", ro.version, ro.level, exp.version, exp.level)), job, second(&m));
        return;
    }
    if let Err(v) = symbol::check_blocks(&ro) {
        flag(st, ID, v, job, second(&m));
        return;
    }
    st.count("blocks_checked", ro.blocks.len() as u64);
    st.count("syndromes_computed", (ro.blocks.len() * ro.layout.ec_per_block) as u64);
    st.count("remainder_bits_checked", ro.remainder.len() as u64);
    st.reach("version_level", cell_id(ro.version, ro.level));
    for b in &ro.blocks {
        st.reach("blocklen_ec_pairs", (b.data.len() * 64 + b.ec.len()) as u64);
    }
    if !cfg.input.is_empty() {
        st.distinct(job.key(&cfg.input));
    }

    // corruption corollary: up to floor(ec/2) corrupted codewords per block are recovered by a
    // standard RS decoder and the payload re-decodes.
    let mut rng = Rng::new(job.seed ^ 0xbad);
    let draws = ctx.tier.pick(1, 3);
    let t_max = ro.layout.ec_per_block / 2;
    for draw in 0..draws {
        let mut damaged: Vec<Block> = ro.blocks.clone();
        let mut total_errs = 0;
        for b in damaged.iter_mut() {
            let len = b.data.len() + b.ec.len();
            let t = if draw == 0 { t_max } else { rng.below(t_max + 1) };
            let burst = draw == 2;
            let start = rng.below(len);
            let mut pos: Vec<usize> = (0..len).collect();
            if burst {
                pos.rotate_left(start);
            } else {
                rng.shuffle(&mut pos);
            }
            for &p in &pos[..t] {
                let e = 1 + rng.below(255) as u8;
                if p < b.data.len() {
                    b.data[p] ^= e;
                } else {
                    b.ec[p - b.data.len()] ^= e;
                }
            }
            total_errs += t;
        }
        let mut data = Vec::new();
        for (i, b) in damaged.iter().enumerate() {
            match gf::rs_decode(&b.whole(), ro.layout.ec_per_block) {
                Some((w, _)) if w == ro.blocks[i].whole() => data.extend_from_slice(&w[..b.data.len()]),
                _ => {
                    flag(st, ID, ("corruption-not-recovered".into(), format!("block {i} with {} corrupted codewords (<= floor({}/2)) was not restored by the RS decoder", t_max, ro.layout.ec_per_block)), job, false);
                    return;
                }
            }
        }
        match segment::parse(&data, ro.version) {
            Ok(p) if p.segments.len() == 1 && p.segments[0].bytes == cfg.input => {}
            _ => {
                flag(st, ID, ("corruption-payload".into(), "payload does not re-decode after correction".into()), job, false);
                return;
            }
        }
        st.count("corruptions_decoded", 1);
        st.count("codewords_corrupted", total_errs as u64);
    }

    // thorough: damage the *matrix* (whole codewords flipped through the placement order) and
    // run the complete reference decode on the module values
    if ctx.tier == Tier::Thorough {
        let map = region_map(ro.version);
        let mut dm = m.clone();
        // corrupt t_max interleaved positions that belong to distinct indices of block 0..: choose
        // per block t_max codeword slots via the interleave structure (position i*nb + b for the
        // common part), staying within the first short_data rows so the mapping is exact
        let nb = ro.layout.num_blocks;
        let rows = ro.layout.short_data;
        let mut flipped = 0;
        for b in 0..nb {
            let mut rows_idx: Vec<usize> = (0..rows).collect();
            rng.shuffle(&mut rows_idx);
            for &r in rows_idx.iter().take(t_max.min(rows)) {
                let cw = r * nb + b;
                for bit in 0..8 {
                    if rng.chance(1, 2) || bit == 0 {
                        let (rr, cc) = map.zigzag[cw * 8 + bit];
                        let v = dm.get(rr, cc);
                        dm.set(rr, cc, !v);
                    }
                }
                flipped += 1;
            }
        }
        match decode::decode(&dm) {
            Ok(d) if d.parsed.segments.len() == 1 && d.parsed.segments[0].bytes == cfg.input => {
                st.count("matrix_corruptions_decoded", 1);
                st.count("matrix_codewords_flipped", flipped);
            }
            Ok(_) => flag(st, ID, ("matrix-corruption-payload".into(), format!("{flipped} damaged codewords: decoded payload differs")), job, false),
            Err(e) => flag(st, ID, ("matrix-corruption-undecodable".into(), format!("{flipped} damaged codewords (<= floor(ec/2) per block): {e}")), job, false),
        }
    }
    st.sample(41, || {
        json!({"options": cfg.describe(), "input": adapter::short_hex(&cfg.input), "blocks": ro.blocks.len(),
               "block_data_lens": ro.blocks.iter().map(|b| b.data.len()).collect::<Vec<_>>(), "ec_per_block": ro.layout.ec_per_block,
               "corrupted_per_block": t_max})
    });
}

pub fn run(ctx: &Ctx) -> Report {
    let jobs = jobs(ctx);
    let st = pool::run(&jobs, ctx.remaining(), |st, job, i| {
        observe(ctx, st, job);
        // every fifth job is followed, on the same thread, by a sibling: same payload, one option changed
        if i % 5 == 0 {
            if let Some(sib) = job.sibling(&ctx.caps) {
                let before = st.violations.len();
                observe(ctx, st, &sib);
                st.count("sibling_builds_same_payload_other_option", 1);
                for v in &mut st.violations[before..] {
                    v.detail = format!("{} (sibling run: same payload as the job before it on this thread, one option changed; the fault may depend on that history)", v.detail);
                }
            }
        }
    });
    let mut rep = Report::new(
        st,
        "jobs = all 160 (version, level) cells x {capacity-filling, short} non-periodic payloads (thorough: + random lengths per cell), mask rotating over 0..7 and automatic; + long single-thread histories (bigger symbol, 254..258 / 510..514 (thorough also 65,534..65,538) smallest symbols, then a smaller symbol with remainder bits; every build checked) + no level given (pinned and automatic version, lengths that would also fit level H in the pinned version): the layout must be the level-Q one the format information announces; each build is read out from module values (unmask, zig-zag, de-interleave by the oracle's Table 9) and every block's syndromes S_0..S_{ec-1}, the remainder bits and the codeword count are checked; then floor(ec/2) random/burst codeword errors per block are injected and must be corrected; distinct key = (options, len, payload hash), non-trivial = non-empty payload",
    );
    rep.expected_sets = vec![("version_level", 160), ("blocklen_ec_pairs", 98)];
    rep.required_sets = vec![("version_level", 160)];
    rep.min_evaluations = 320;
    rep.assumptions = vec!["ISO Table 9 transcribed as two 4x40 tables, cross-checked against the qrcode crate every run".into()];
    rep
}

pub fn replay(ctx: &Ctx, job: &serde_json::Value) -> Option<Stats> {
    let job = Job::from_json(job, &FAMS)?;
    let mut st = Stats::new();
    observe(ctx, &mut st, &job);
    Some(st)
}
