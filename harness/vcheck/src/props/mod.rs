pub mod c01;
