//! C10 — building is total: Ok or a documented Err, never a panic, overflow or hang.
//! (The harness profile compiles fast_qr with overflow-checks and debug-assertions ON.)

use crate::adapter::{self, Outcome};
use crate::fw::{flag, Ctx, Report, Tier};
use crate::job::{Job, GEN_COUNT};
use crate::pool;
#[cfg(feature = "render")]
use crate::sanit;
use crate::stats::Stats;
use crate::symbol;
use oracle::rng::{mix, Rng};
use serde_json::json;
use std::sync::atomic::{AtomicU64, Ordering};
use std::sync::Mutex;
use std::time::{Duration, Instant};

pub const ID: &str = "C10";
pub const FAMS: [&str; 5] = ["threshold", "arbitrary", "cell-at-capacity", "extremes", "crafted"];

pub fn jobs(ctx: &Ctx) -> Vec<Job> {
    let caps = &ctx.caps;
    let mut jobs = Vec::new();
    let mut k = 0u64;
    let mut rng = Rng::new(ctx.seed ^ 0xc10);
    let opt = |rng: &mut Rng, n: usize| if rng.chance(1, 3) { None } else { Some(rng.below(n)) };
    // all 480 capacity thresholds +-2, every level option incl. automatic
    for class in 0..3usize {
        for level in 0..4usize {
            for v in 1..=40usize {
                let c = caps.cap(v, level, class);
                for d in 0..5usize {
                    if c + d < 2 {
                        continue;
                    }
                    let len = c + d - 2;
                    k += 1;
                    let vmin = caps.vmin(level, class, len);
                    let version = match k % 6 {
                        0 => None,
                        1 => Some(1),
                        2 => Some(40),
                        3 => vmin.map(|x| x.saturating_sub(1).max(1)),
                        4 => vmin,
                        _ => vmin.map(|x| (x + 1).min(40)),
                    };
                    jobs.push(Job {
                        fam: FAMS[0],
                        class,
                        mode: if k % 2 == 0 { Some(class) } else { None },
                        level: if level == 2 && k % 4 == 1 { None } else { Some(level) },
                        version,
                        mask: opt(&mut rng, 8),
                        len,
                        gen: (k % GEN_COUNT as u64) as usize,
                        seed: mix(ctx.seed, k),
                        ..Default::default()
                    });
                }
            }
        }
    }
    // every (version, level) cell built at capacity in every mode (fixed-size buffers at their fullest)
    for v in 1..=40usize {
        for level in 0..4usize {
            for class in 0..3usize {
                k += 1;
                jobs.push(Job { fam: FAMS[2], class, mode: Some(class), level: Some(level), version: Some(v), mask: None, len: caps.cap(v, level, class), gen: (k % GEN_COUNT as u64) as usize, seed: mix(ctx.seed, k), ..Default::default() });
            }
        }
    }
    // special lengths
    for &len in &[0usize, 1, 2, 7089, 7090, 7091, 8000, 4296, 4297, 2953, 2954, 65_535, 65_536, 70_000] {
        for class in 0..3usize {
            for gen in 0..GEN_COUNT {
                k += 1;
                jobs.push(Job { fam: FAMS[3], class, mode: if gen % 2 == 0 { None } else { Some(class) }, level: opt(&mut rng, 4), version: opt(&mut rng, 40).map(|v| v + 1), mask: opt(&mut rng, 8), len, gen, seed: mix(ctx.seed, k), ..Default::default() });
            }
        }
    }
    // crafted: the data area of the symbol equals each mask pattern / its complement / uniform / finder
    // look-alike rows and columns / stripes (every counter of the scoring code at its extreme), and data
    // codewords with prescribed per-block shapes (all padding pattern, zero blocks, identical blocks)
    for v in 1..=40usize {
        for level in 0..4usize {
            for t in 0..crate::craft::TARGET_COUNT {
                k += 1;
                if ctx.tier == Tier::Quick && v > 4 && v < 36 && (v + level + t) % 3 != 0 {
                    continue;
                }
                jobs.push(Job::crafted(FAMS[4], crate::job::CRAFT_TARGET, t, v, level, if k % 4 == 0 { Some((k / 4 % 8) as usize) } else { None }, mix(ctx.seed, k)));
            }
            for sh in 0..crate::craft::CW_SHAPE_COUNT {
                k += 1;
                jobs.push(Job::crafted(FAMS[4], crate::job::CRAFT_SHAPE, sh, v, level, if k % 4 == 0 { Some((k / 4 % 8) as usize) } else { None }, mix(ctx.seed, k)));
            }
        }
    }
    // arbitrary strings and option combinations
    let n = ctx.tier.pick(60_000, ctx.scale(1_500_000));
    for _ in 0..n {
        k += 1;
        let class = rng.below(3);
        let len = match rng.below(10) {
            0 => rng.below(8001),
            1..=3 => rng.below(64),
            4..=6 => rng.below(400),
            _ => rng.below(3000),
        };
        // a forced mode is only inside the property when its alphabet contains the input
        let mode = match rng.below(4) {
            0 => None,
            1 => Some(class),
            2 => Some(2),
            _ => Some(class.max(rng.below(3))),
        };
        jobs.push(Job {
            fam: FAMS[1],
            class,
            mode,
            level: opt(&mut rng, 4),
            version: opt(&mut rng, 40).map(|v| v + 1),
            mask: opt(&mut rng, 8),
            len,
            gen: rng.below(GEN_COUNT),
            seed: mix(ctx.seed, k),
            ..Default::default()
        });
    }
    jobs
}

pub fn observe(ctx: &Ctx, st: &mut Stats, job: &Job) {
    let cfg = job.config();
    st.eval();
    if let Some(m) = cfg.mode {
        if !oracle::tables::mode_accepts(m, &cfg.input) {
            st.inconclusive(format!("workload bug: forced mode outside alphabet: {}", cfg.describe()));
            return;
        }
    }
    // every 8th job is preceded, on the same thread, by a call that is OUTSIDE the property (a forced Numeric /
    // Alphanumeric mode on an input with one foreign character: the crate documents an assertion failure there) whose
    // panic is caught, as a server would: whatever that unwinding leaves behind must not make the next, legitimate
    // build panic or overflow
    if job.seed % 8 == 0 && !cfg.input.is_empty() {
        let mut bad = cfg.clone();
        let at = (job.seed >> 8) as usize % bad.input.len();
        let class = oracle::tables::classify(&cfg.input).min(1);
        bad.mode = Some(class);
        // keep the rest in the forced mode's alphabet so that the foreign byte is met mid-way through the encoder
        for b in bad.input.iter_mut() {
            if !oracle::tables::mode_accepts(class, &[*b]) {
                *b = b'7';
            }
        }
        bad.input[at] = if class == 0 { b'a' } else { b'~' };
        if let Outcome::Panic(_) = adapter::build(&bad) {
            st.count("caught_out_of_contract_panics_before_a_legitimate_build", 1);
        }
    }
    let out = adapter::build(&cfg);
    let want = symbol::expect(&cfg, &ctx.caps);
    match &out {
        Outcome::Panic(msg) => {
            let kind = if msg.contains("overflow") {
                "arithmetic-overflow"
            } else if msg.contains("out of range") || msg.contains("out of bounds") || msg.contains("index") {
                "index-out-of-bounds"
            } else if msg.contains("assertion") {
                "assertion-failed"
            } else {
                "panic"
            };
            flag(st, ID, (kind.into(), format!("build panicked: {msg}")), job, false);
            return;
        }
        Outcome::Ok(qr) => {
            st.count("outcome_ok", 1);
            st.reach("version_level_built", (qr.version.map(adapter::version_no).unwrap_or(0) * 4 + qr.ecl.map(adapter::level_no).unwrap_or(0)) as u64);
            // whether this Ok is the RIGHT outcome (capacity, forced version) is C05's business;
            // C10 only asks for "a QR code or one of the two documented errors"
            if want.is_err() {
                st.count("ok_where_capacity_oracle_expected_an_error", 1);
            }
        }
        Outcome::TooBig => st.count("outcome_err_encoded_data", 1),
        Outcome::VersionTooSmall => st.count("outcome_err_specified_version", 1),
    }
    if job.fam == FAMS[2] {
        st.reach("cells_at_capacity", ((job.version.unwrap() * 4 + job.level.unwrap()) * 3 + job.class) as u64);
    }
    st.reach("option_shapes", (cfg.mode.is_some() as u64) | (cfg.version.is_some() as u64) << 1 | (cfg.mask.is_some() as u64) << 2 | (cfg.level.is_some() as u64) << 3);
    if job.aux[3] == crate::job::CRAFT_TARGET {
        st.reach("crafted_targets", job.aux[0] as u64);
        st.count("crafted_payload_builds", 1);
    } else if job.aux[3] == crate::job::CRAFT_SHAPE {
        st.reach("crafted_shapes", job.aux[0] as u64);
        st.count("crafted_payload_builds", 1);
    } else {
        st.reach("generators", job.gen as u64);
    }
    st.distinct(job.key(&cfg.input));
    st.sample(4099, || json!({"options": cfg.describe(), "input": adapter::short_hex(&cfg.input), "outcome": out.kind()}));
}

/// Watchdog: per-worker "job started at" stamps; a job running longer than `limit` is re-run
/// alone in a child process with a generous limit. Still running there => nontermination.
struct Watch {
    started: Vec<AtomicU64>, // millis since t0, 0 = idle
    jobidx: Vec<AtomicU64>,
    t0: Instant,
}

pub fn run(ctx: &Ctx) -> Report {
    let jobs = jobs(ctx);
    let nthreads = pool::threads();
    let watch = Watch { started: (0..64).map(|_| AtomicU64::new(0)).collect(), jobidx: (0..64).map(|_| AtomicU64::new(0)).collect(), t0: Instant::now() };
    let done = std::sync::atomic::AtomicBool::new(false);
    let slow: Mutex<Vec<(usize, u64)>> = Mutex::new(Vec::new());
    let hung: Mutex<Vec<usize>> = Mutex::new(Vec::new());
    let slot_counter = AtomicU64::new(0);
    thread_local! { static SLOT: std::cell::Cell<usize> = const { std::cell::Cell::new(usize::MAX) }; }
    let mut st = std::thread::scope(|s| {
        let w = &watch;
        let done_ref = &done;
        let slow_ref = &slow;
        let hung_ref = &hung;
        let jobs_ref = &jobs;
        s.spawn(move || {
            let mut reported = std::collections::BTreeSet::new();
            while !done_ref.load(Ordering::Relaxed) {
                std::thread::sleep(Duration::from_millis(250));
                let now = w.t0.elapsed().as_millis() as u64;
                for slot in 0..64 {
                    let t = w.started[slot].load(Ordering::Relaxed);
                    if t != 0 && now.saturating_sub(t) > 20_000 {
                        let idx = w.jobidx[slot].load(Ordering::Relaxed) as usize;
                        if reported.insert(idx) {
                            // re-run alone in a child process with a 120 s limit
                            let alive = child_rerun(&jobs_ref[idx], Duration::from_secs(120));
                            if alive {
                                hung_ref.lock().unwrap().push(idx);
                                // the worker is stuck for good: finish the check from here
                                println!(
                                    "VIOLATION property={ID} replay=- kind=nontermination build did not finish within 120 s alone in a child process (measured worst case < 10 ms): {}",
                                    jobs_ref[idx].to_json()
                                );
                                std::process::exit(1);
                            } else {
                                slow_ref.lock().unwrap().push((idx, now - t));
                            }
                        }
                    }
                }
            }
        });
        let st = pool::run(&jobs, ctx.remaining(), |st, job, i| {
            let slot = SLOT.with(|c| {
                if c.get() == usize::MAX {
                    c.set(slot_counter.fetch_add(1, Ordering::Relaxed) as usize % 64);
                }
                c.get()
            });
            watch.jobidx[slot].store(i as u64, Ordering::Relaxed);
            watch.started[slot].store(watch.t0.elapsed().as_millis() as u64 + 1, Ordering::Relaxed);
            observe(ctx, st, job);
            watch.started[slot].store(0, Ordering::Relaxed);
        });
        done.store(true, Ordering::Relaxed);
        st
    });
    let _ = nthreads;
    for (idx, ms) in slow.lock().unwrap().iter() {
        st.notes.push(format!("job {idx} took {ms} ms in the pool but finished alone in a child process (load, not a hang)"));
    }
    st.count("watchdog_slow_jobs_rerun", slow.lock().unwrap().len() as u64);

    // huge inputs (far beyond any capacity: the answer is Err(EncodedData)) on a thread with the DEFAULT stack size,
    // each in its own child process: work that grows with the input before the capacity gate (recursion per byte, a
    // buffer per byte) ends in stack exhaustion or an allocation failure, which no catch_unwind can report
    {
        let exe = std::env::current_exe().ok();
        let lens: Vec<usize> = ctx.tier.pick(vec![20_000, 120_000, 1_000_000, 4_000_000], vec![9_000, 20_000, 60_000, 120_000, 500_000, 1_000_000, 4_000_000, 16_000_000]);
        for (i, &len) in lens.iter().enumerate() {
            for class in 0..3usize {
                for gen in [crate::job::GEN_RANDOM, crate::job::GEN_LOW] {
                    if gen == crate::job::GEN_LOW && i % 2 == 1 {
                        continue;
                    }
                    st.eval();
                    let spec = format!("huge:{class}:{len}:{gen}");
                    let out = exe.as_ref().and_then(|e| std::process::Command::new(e).arg("c10-child").arg(&spec).output().ok());
                    match out {
                        None => st.inconclusive("huge-input family: cannot spawn child".into()),
                        Some(o) => {
                            let text = String::from_utf8_lossy(&o.stdout).to_string();
                            let outcome = text.lines().find_map(|l| l.strip_prefix("OUTCOME ")).unwrap_or("").to_string();
                            let j = serde_json::json!({"fam": "huge-input", "class": class, "len": len, "gen": gen});
                            if !o.status.success() {
                                st.violation(ID, "abnormal-termination", format!("building {len} bytes (class {}, automatic mode) on a default-stack thread ended the process with {} ({})", oracle::tables::MODE_NAMES[class], o.status, String::from_utf8_lossy(&o.stderr).lines().last().unwrap_or("")), j);
                            } else if outcome == "panic" || outcome == "thread-panicked" {
                                st.violation(ID, "panic", format!("building {len} bytes (class {}, automatic mode) panicked", oracle::tables::MODE_NAMES[class]), j);
                            } else if outcome.is_empty() {
                                st.inconclusive(format!("huge-input family: child protocol broken for {spec}: {text:?}"));
                            } else {
                                st.count("huge_inputs_answered_on_a_default_stack", 1);
                                st.max("max_input_length_built", len as u64);
                                st.distinct(mix(0x4075e, (len * 8 + class * 2 + gen) as u64));
                            }
                        }
                    }
                }
            }
        }
    }
    // build() from the destructor of a caller's thread-local, while the thread is being torn down (child processes:
    // a panic inside a destructor that runs during teardown may abort, and the harness's own thread-locals are gone)
    {
        let exe = std::env::current_exe().ok();
        for rep in 0..ctx.tier.pick(4u64, 40) {
            st.eval();
            let threads = [3usize, 8, 16, 32][rep as usize % 4];
            let spec = format!("teardown:{threads}:{}", mix(ctx.seed, 0x7ea2 + rep));
            let j = serde_json::json!({"fam": "thread-teardown", "threads": threads, "spec": spec});
            match exe.as_ref().and_then(|e| std::process::Command::new(e).arg("c10-child").arg(&spec).output().ok()) {
                None => st.inconclusive("thread-teardown family: cannot spawn child".into()),
                Some(o) => {
                    let text = String::from_utf8_lossy(&o.stdout).to_string();
                    let lines: Vec<&str> = text.lines().filter_map(|l| l.strip_prefix("TEARDOWN ")).collect();
                    if !o.status.success() || !text.contains("END") {
                        st.violation(ID, "abnormal-termination", format!("a process whose {threads} threads build a QR code from a thread-local destructor while they wind down ended with {} ({})", o.status, String::from_utf8_lossy(&o.stderr).lines().last().unwrap_or("")), j);
                    } else if let Some(p) = lines.iter().find(|l| l.starts_with("panic")) {
                        st.violation(ID, "panic", format!("build() called from the destructor of a caller's thread-local while the thread was being torn down panicked: {}", &p[5..]), j);
                    } else if lines.len() != threads {
                        st.inconclusive(format!("thread-teardown family: {} of {threads} destructors reported", lines.len()));
                    } else {
                        st.count("builds_from_thread_local_destructors_during_teardown", lines.len() as u64);
                        st.distinct(mix(0x7ea2, rep));
                    }
                }
            }
        }
    }
    #[allow(unused_mut)]
    let mut extra = vec![];
    #[cfg(feature = "render")]
    if ctx.tier == Tier::Thorough {
        let r = sanit::miri_stage(ctx, "c10", 16);
        r.apply(ID, &mut st, &mut extra);
        // every fixed-size buffer walked to its far end under the interpreter: one big version per process
        let r = sanit::miri_stage_large(ctx, "c10-large");
        r.apply(ID, &mut st, &mut extra);
    }
    let mut rep = Report::new(
        st,
        "jobs = all 480 capacity thresholds +-2 under rotating version options {auto, 1, vmin-1, vmin, vmin+1, 40} and forced/automatic mode, level, mask; every (version, level, mode) cell at capacity with automatic mask; special lengths {0,1,2,7089..7091,8000,65535,65536,...} x 17 payload generators (all-zero, all-0xFF, pad look-alikes, mode-indicator look-alikes, real-world tokens and magic prefixes, zero runs, periodic, alternating extremes, ...); crafted byte payloads at every (version, level): data area equal to each of the 8 mask patterns and their complements, uniform, finder look-alike rows/columns, stripes, 2x2 blocks (24 targets: every counter of the scoring code at its extreme) and 8 per-block codeword shapes (all padding pattern, zero blocks, identical blocks, leading zeros); arbitrary strings of length 0..8000 with random option combinations (forced modes only when their alphabet contains the input); every 8th build follows a caught out-of-contract panic (forced mode on a foreign character) on the same thread; each build runs under catch_unwind in a profile with overflow-checks and debug-assertions enabled; outcome must be Ok / Err(EncodedData) / Err(SpecifiedVersion); inputs of 20,000 .. 4,000,000 bytes (thorough: up to 16,000,000) are built in child processes on a thread with the default 2 MiB stack (stack exhaustion or allocation failure = abnormal termination); build() is also called from the destructors of callers' thread-locals while 3..32 threads of a child process wind down (registered before the thread's first build, after it, or without one); watchdog re-runs any job slower than 20 s in a child process (120 s limit); thorough adds two Miri stages (240 small builds+renders; 16 builds at versions 5..40, one interpreter process each); distinct key = (options, len, payload hash); every case non-trivial",
    );
    rep.expected_sets = vec![("cells_at_capacity", 480), ("option_shapes", 16), ("generators", 17), ("crafted_targets", 24), ("crafted_shapes", 11), ("version_level_built", 160)];
    rep.required_sets = vec![("cells_at_capacity", 480), ("option_shapes", 16), ("generators", 17), ("crafted_targets", 24), ("crafted_shapes", 11)];
    rep.min_evaluations = 20_000;
    rep.extra = extra;
    rep.assumptions = vec![
        "fast_qr compiled at opt-level 2 with overflow-checks=true and debug-assertions=true (harness profile `verif`)".into(),
        "non-termination is decided by a bounded watchdog (20 s in pool, then 120 s alone; measured worst case for one build: < 10 ms)".into(),
        "stack exhaustion on small thread stacks and allocator failure are not explored".into(),
    ];
    rep
}

/// true = still running when the limit expired
fn child_rerun(job: &Job, limit: Duration) -> bool {
    let exe = match std::env::current_exe() {
        Ok(e) => e,
        Err(_) => return false,
    };
    let mut child = match std::process::Command::new(exe).arg("c10-child").arg(job.to_json().to_string()).stdout(std::process::Stdio::null()).stderr(std::process::Stdio::null()).spawn() {
        Ok(c) => c,
        Err(_) => return false,
    };
    let t = Instant::now();
    loop {
        match child.try_wait() {
            Ok(Some(_)) => return false,
            Ok(None) => {
                if t.elapsed() > limit {
                    let _ = child.kill();
                    let _ = child.wait();
                    return true;
                }
                std::thread::sleep(Duration::from_millis(100));
            }
            Err(_) => return false,
        }
    }
}

/// child side of the huge-input family: `vcheck c10-child huge:<class>:<len>:<gen>` builds ONE input of that length in
/// automatic mode on a thread with the platform's DEFAULT stack size (what `std::thread::spawn` gives a user: 2 MiB) and
/// prints the outcome. Stack exhaustion aborts the process: the parent sees the signal.
fn huge_child(spec: &str) -> i32 {
    let mut it = spec.split(':').skip(1);
    let class: usize = it.next().and_then(|x| x.parse().ok()).unwrap_or(2);
    let len: usize = it.next().and_then(|x| x.parse().ok()).unwrap_or(0);
    let gen: usize = it.next().and_then(|x| x.parse().ok()).unwrap_or(0);
    let payload = crate::job::gen_payload(class, len, gen, 0x4075e);
    let h = std::thread::spawn(move || {
        let cfg = adapter::Config { input: payload, mode: None, level: None, version: None, mask: None };
        adapter::build(&cfg).kind().to_string()
    });
    match h.join() {
        Ok(kind) => {
            println!("OUTCOME {kind}");
            0
        }
        Err(_) => {
            println!("OUTCOME thread-panicked");
            0
        }
    }
}

/// What a caller may keep in a thread-local of its own: a value whose destructor builds a QR code (a "last words"
/// logger, a metrics flush). The destructor runs while the thread is being torn down.
struct LastWords {
    input: Vec<u8>,
    level: usize,
    tx: std::sync::mpsc::Sender<String>,
}

impl Drop for LastWords {
    fn drop(&mut self) {
        let input = self.input.clone();
        let level = self.level;
        // no harness thread-local may be touched here (they may be gone already): plain catch_unwind, no panic capture
        let r = std::panic::catch_unwind(move || {
            let mut b = fast_qr::QRBuilder::new(input);
            b.ecl(adapter::LEVELS[level]);
            b.build().map(|q| q.size)
        });
        let _ = self.tx.send(match r {
            Ok(Ok(size)) => format!("ok {size}"),
            Ok(Err(_)) => "err".to_string(),
            Err(p) => format!("panic {}", p.downcast_ref::<String>().cloned().or_else(|| p.downcast_ref::<&str>().map(|s| s.to_string())).unwrap_or_default()),
        });
    }
}

thread_local! {
    static LAST_WORDS: std::cell::RefCell<Option<LastWords>> = const { std::cell::RefCell::new(None) };
}

/// child side of the thread-teardown family: `vcheck c10-child teardown:<threads>:<seed>`. Every thread parks a
/// `LastWords` in its thread-local (before its first build, after it, or without building at all) and ends; the
/// destructors build while the threads wind down. Prints one "TEARDOWN <outcome>" line per thread.
fn teardown_child(spec: &str) -> i32 {
    let mut it = spec.split(':').skip(1);
    let threads: usize = it.next().and_then(|x| x.parse().ok()).unwrap_or(8);
    let seed: u64 = it.next().and_then(|x| x.parse().ok()).unwrap_or(1);
    std::panic::set_hook(Box::new(|_| {}));
    let (tx, rx) = std::sync::mpsc::channel::<String>();
    let mut hs = Vec::new();
    for t in 0..threads {
        let tx = tx.clone();
        hs.push(std::thread::spawn(move || {
            let mut rng = oracle::rng::Rng::new(mix(seed, t as u64));
            let class = rng.below(3);
            let len = 1 + rng.below(if t % 5 == 0 { 2000 } else { 60 });
            let words = LastWords { input: crate::job::gen_payload(class, len, rng.below(crate::job::GEN_COUNT), rng.next_u64()), level: rng.below(4), tx };
            let build_once = || {
                let _ = std::panic::catch_unwind(|| fast_qr::QRBuilder::new("https://example.com/").build().is_ok());
            };
            match t % 3 {
                0 => {
                    // the caller's thread-local is first touched BEFORE the thread's first build: it is destroyed after
                    // any thread-local the crate registers later
                    LAST_WORDS.with(|w| *w.borrow_mut() = Some(words));
                    build_once();
                }
                1 => {
                    build_once();
                    LAST_WORDS.with(|w| *w.borrow_mut() = Some(words));
                }
                _ => LAST_WORDS.with(|w| *w.borrow_mut() = Some(words)),
            }
        }));
    }
    drop(tx);
    for h in hs {
        let _ = h.join();
    }
    for line in rx.iter() {
        println!("TEARDOWN {line}");
    }
    println!("END");
    0
}

pub fn child_main(arg: &str) -> i32 {
    if arg.starts_with("huge:") {
        return huge_child(arg);
    }
    if arg.starts_with("teardown:") {
        return teardown_child(arg);
    }
    let v: serde_json::Value = match serde_json::from_str(arg) {
        Ok(v) => v,
        Err(_) => return 2,
    };
    match Job::from_json(&v, &FAMS) {
        Some(job) => {
            let _ = adapter::build(&job.config());
            0
        }
        None => 2,
    }
}

pub fn replay(ctx: &Ctx, job: &serde_json::Value) -> Option<Stats> {
    let job = Job::from_json(job, &FAMS)?;
    let mut st = Stats::new();
    observe(ctx, &mut st, &job);
    Some(st)
}
