//! C16 — terminal rendering encodes the matrix faithfully with a one-module border.

use crate::adapter::{self, Outcome};
use crate::cells::rotate_mask;
use crate::fw::{flag, Ctx, Report};
use crate::job::{Job, GEN_COUNT};
use crate::pool;
use crate::stats::Stats;
use crate::svgcheck;
use oracle::rng::mix;
use serde_json::json;

pub const ID: &str = "C16";
pub const FAMS: [&str; 1] = ["cell"];

pub fn jobs(ctx: &Ctx) -> Vec<Job> {
    let mut jobs = Vec::new();
    let mut k = 0u64;
    let per = ctx.tier.pick(4, ctx.scale(40));
    for v in 1..=40usize {
        for level in 0..4usize {
            let masks: Vec<usize> = ctx.tier.pick(vec![0], (0..8).collect());
            for _m in masks {
                for p in 0..per {
                    k += 1;
                    let class = (k % 3) as usize;
                    let cap = ctx.caps.cap(v, level, class);
                    jobs.push(Job { fam: FAMS[0], class, mode: Some(class), level: Some(level), version: Some(v), mask: rotate_mask(k as usize), len: if p == 0 { cap } else { mix(ctx.seed, k) as usize % (cap + 1) }, gen: (k % GEN_COUNT as u64) as usize, seed: mix(ctx.seed, k), ..Default::default() });
                }
            }
        }
    }
    jobs
}

pub fn observe(_ctx: &Ctx, st: &mut Stats, job: &Job) {
    let cfg = job.config();
    st.eval();
    let qr = match adapter::build(&cfg) {
        Outcome::Ok(q) => q,
        other => {
            flag(st, ID, ("no-symbol".into(), format!("crate returned {}", other.describe())), job, false);
            return;
        }
    };
    let before = adapter::digest(&qr);
    let text = match adapter::guarded(|| qr.to_str()) {
        Ok(t) => t,
        Err(p) => {
            flag(st, ID, ("render-panic".into(), p), job, false);
            return;
        }
    };
    if adapter::digest(&qr) != before {
        flag(st, ID, ("render-mutates".into(), "to_str modified the QRCode".into()), job, false);
        return;
    }
    match svgcheck::check_terminal(&text, &qr) {
        Ok(n) => {
            st.count("cells_decoded_from_text", n);
            st.reach("sizes", qr.size as u64);
            st.distinct(job.key(&cfg.input));
            st.sample(53, || json!({"options": cfg.describe(), "input": adapter::short_hex(&cfg.input), "lines": (qr.size + 1) / 2 + 1, "first_line": text.lines().nth(1).unwrap_or("")}));
        }
        Err(v) => flag(st, ID, v, job, false),
    }
}

pub fn run(ctx: &Ctx) -> Report {
    let jobs = jobs(ctx);
    let st = pool::run(&jobs, ctx.remaining(), |st, job, _| observe(ctx, st, job));
    let mut rep = Report::new(
        st,
        "jobs = all 40 sizes x 4 levels x payloads (capacity-filling + random; thorough: x 8 mask slots), mask rotating over forced 0..7 and automatic; to_str() is split into lines, every character mapped to a (top, bottom) pair (space = dark/dark, U+2588 = light/light, U+2580 = light/dark, U+2584 = dark/light) and the resulting grid compared cell by cell with a one-module light border around the module values; distinct key = (options, len, payload hash); every case non-trivial",
    );
    rep.expected_sets = vec![("sizes", 40)];
    rep.required_sets = vec![("sizes", 40)];
    rep.min_evaluations = 480;
    rep
}

pub fn replay(ctx: &Ctx, job: &serde_json::Value) -> Option<Stats> {
    let job = Job::from_json(job, &FAMS)?;
    let mut st = Stats::new();
    observe(ctx, &mut st, &job);
    Some(st)
}
