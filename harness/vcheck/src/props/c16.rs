//! C16 — terminal rendering encodes the matrix faithfully with a one-module border.

use crate::adapter::{self, Outcome};
use crate::cells::rotate_mask;
use crate::fw::{flag, Ctx, Report};
use crate::job::{Job, GEN_COUNT};
use crate::pool;
use crate::stats::Stats;
use crate::termcheck as svgcheck;
use oracle::rng::mix;
use serde_json::json;

pub const ID: &str = "C16";
pub const FAMS: [&str; 3] = ["cell", "crafted", "exact-dark-count"];

pub fn jobs(ctx: &Ctx) -> Vec<Job> {
    let mut jobs = Vec::new();
    let mut k = 0u64;
    let per = ctx.tier.pick(8, ctx.scale(150));
    for v in 1..=40usize {
        for level in 0..4usize {
            let masks: Vec<usize> = ctx.tier.pick(vec![0], (0..8).collect());
            for _m in masks {
                for p in 0..per {
                    k += 1;
                    let class = (k % 3) as usize;
                    let cap = ctx.caps.cap(v, level, class);
                    jobs.push(Job { fam: FAMS[0], class, mode: Some(class), level: Some(level), version: Some(v), mask: rotate_mask(k as usize), len: if p == 0 { cap } else { mix(ctx.seed, k) as usize % (cap + 1) }, gen: (k % GEN_COUNT as u64) as usize, seed: mix(ctx.seed, k), ..Default::default() });
                }
            }
        }
    }
    // crafted byte payloads: with the matching forced mask the data area of the FINAL symbol is uniformly
    // light (target = mask m) or uniformly dark (target = complement of mask m); plus stripes, 2x2 blocks,
    // finder look-alikes: long runs and repeated chunks in the rows the renderer pairs up
    for v in ctx.tier.pick(vec![1usize, 2, 3, 4, 5, 6, 7, 9, 12, 16, 21, 28, 35, 40], (1..=40).collect()) {
        for t in 0..crate::craft::TARGET_COUNT {
            k += 1;
            let mask = if t < 16 { Some(t % 8) } else { rotate_mask(k as usize) };
            jobs.push(Job::crafted(FAMS[1], crate::job::CRAFT_TARGET, t, v, (k % 4) as usize, mask, mix(ctx.seed, k)));
        }
    }
    for (v, dk) in Job::dark_count_cells() {
        k += 1;
        jobs.push(Job::dark_count(FAMS[2], dk, v, (k % 2) as usize, (k % 8) as usize, mix(ctx.seed, k)));
    }
    jobs
}

pub fn observe(_ctx: &Ctx, st: &mut Stats, job: &Job) {
    let owned = match job.materialise() {
        Some(j) => j,
        None => {
            st.count("dark_count_searches_without_result", 1);
            return;
        }
    };
    let job = &owned;
    let cfg = job.config();
    st.eval();
    let qr = match adapter::build(&cfg) {
        Outcome::Ok(q) => q,
        other => {
            flag(st, ID, ("no-symbol".into(), format!("crate returned {}", other.describe())), job, false);
            return;
        }
    };
    // a fifth of the symbols are edited through the public API before rendering (toggled modules, inverted symbol,
    // function patterns forced, type labels rewritten): the text must follow the module values it is given
    // (half of them after the unedited symbol has been rendered once from the same object: the copy carries whatever the
    // object remembers of that)
    let qr = if job.seed % 5 == 3 {
        if job.seed % 2 == 0 {
            match adapter::guarded(|| qr.to_str()) {
                Ok(t) => {
                    if let Err(v) = svgcheck::check_terminal(&t, &qr) {
                        flag(st, ID, v, job, false);
                        return;
                    }
                }
                Err(p) => {
                    flag(st, ID, ("render-panic".into(), p), job, false);
                    return;
                }
            }
            st.count("symbols_edited_after_a_first_rendering_of_the_same_object", 1);
        }
        let (e, _) = adapter::edited_by_hand(&qr, job.seed);
        st.count("symbols_edited_by_hand_before_rendering", 1);
        Box::new(e)
    } else {
        qr
    };
    // history: every second job first renders another symbol of an unrelated size on the same thread
    // (bigger or smaller, also checked), so that a renderer that keeps anything between calls shows
    if job.seed & 1 == 1 {
        let pv = 1 + (mix(job.seed, 0x16) as usize % 40);
        let primer = Job { version: Some(pv), level: Some(0), mode: Some(2), class: 2, len: 1 + (job.seed as usize >> 8) % 7, mask: None, ..job.clone() };
        if let Outcome::Ok(pq) = adapter::build(&primer.config()) {
            match adapter::guarded(|| pq.to_str()) {
                Ok(t) => match svgcheck::check_terminal(&t, &pq) {
                    Ok(n) => {
                        st.count("cells_decoded_from_text", n);
                        st.count("primer_renders_checked", 1);
                        st.reach("size_transitions", ((pq.size as u64) << 8) | qr.size as u64);
                        if pq.size > qr.size {
                            st.count("bigger_symbol_rendered_before_on_the_same_thread", 1);
                        }
                    }
                    Err(v) => {
                        flag(st, ID, v, &primer, false);
                        return;
                    }
                },
                Err(p) => {
                    flag(st, ID, ("render-panic".into(), p), &primer, false);
                    return;
                }
            }
        }
    }
    let before = adapter::digest(&qr);
    let text = match adapter::guarded(|| qr.to_str()) {
        Ok(t) => t,
        Err(p) => {
            flag(st, ID, ("render-panic".into(), p), job, false);
            return;
        }
    };
    if adapter::digest(&qr) != before {
        flag(st, ID, ("render-mutates".into(), "to_str modified the QRCode".into()), job, false);
        return;
    }
    match svgcheck::check_terminal(&text, &qr) {
        Ok(n) => {
            st.count("cells_decoded_from_text", n);
            st.reach("sizes", qr.size as u64);
            if job.fam == FAMS[1] {
                st.count("crafted_symbols_rendered", 1);
                let n = qr.size;
                let dark = qr.data[..n * n].iter().filter(|m| m.value()).count();
                st.max("max_dark_percent_of_a_rendered_symbol", (100 * dark / (n * n)) as u64);
            }
            st.distinct(job.key(&cfg.input));
            st.sample(53, || json!({"options": cfg.describe(), "input": adapter::short_hex(&cfg.input), "lines": (qr.size + 1) / 2 + 1, "first_line": text.lines().nth(1).unwrap_or("")}));
        }
        Err(v) => flag(st, ID, v, job, false),
    }
}

pub fn run(ctx: &Ctx) -> Report {
    let jobs = jobs(ctx);
    let st = pool::run(&jobs, ctx.remaining(), |st, job, i| {
        observe(ctx, st, job);
        // every fifth job is followed, on the same thread, by a sibling: same payload, one option changed
        if i % 5 == 0 {
            if let Some(sib) = job.sibling(&ctx.caps) {
                let before = st.violations.len();
                observe(ctx, st, &sib);
                st.count("sibling_builds_same_payload_other_option", 1);
                for v in &mut st.violations[before..] {
                    v.detail = format!("{} (sibling run: same payload as the job before it on this thread, one option changed; the fault may depend on that history)", v.detail);
                }
            }
        }
    });
    // concurrent burst: 16 threads released from a barrier render pre-built symbols of 12 different sizes in a tight
    // loop (the pool above also renders concurrently, but spends most of its time building): a renderer that shares
    // anything between threads (a cached border line, a scratch buffer) without holding it consistently shows here
    let mut st = st;
    {
        let symbols: Vec<Box<fast_qr::QRCode>> = (1..=12usize)
            .filter_map(|v| match adapter::build(&adapter::Config { input: vec![b'a' + v as u8; 3], mode: None, level: Some(v % 4), version: Some(v), mask: None }) {
                Outcome::Ok(q) => Some(q),
                _ => None,
            })
            .collect();
        let threads = pool::threads();
        let per_thread = ctx.tier.pick(1_500usize, 20_000);
        let barrier = std::sync::Barrier::new(threads);
        let results: Vec<Stats> = std::thread::scope(|s| {
            let hs: Vec<_> = (0..threads)
                .map(|t| {
                    let (symbols, barrier) = (&symbols, &barrier);
                    s.spawn(move || {
                        let mut st = Stats::new();
                        let mut x = mix(ctx.seed, 0xb0257 + t as u64);
                        barrier.wait();
                        for _ in 0..per_thread {
                            x = mix(x, 1);
                            let q = &symbols[(x % symbols.len() as u64) as usize];
                            st.eval();
                            match adapter::guarded(|| q.to_str()) {
                                Ok(text) => match svgcheck::check_terminal(&text, q) {
                                    Ok(n) => {
                                        st.count("cells_decoded_from_text", n);
                                        st.count("concurrent_burst_renders_checked", 1);
                                    }
                                    Err(v) => {
                                        st.violation(ID, &format!("concurrent/{}", v.0), format!("{} (size {}, rendered while {} other threads were rendering symbols of other sizes)", v.1, q.size, threads - 1), json!({"fam": "concurrent-burst", "size": q.size}));
                                        break;
                                    }
                                },
                                Err(p) => {
                                    st.violation(ID, "concurrent/render-panic", p, json!({"fam": "concurrent-burst", "size": q.size}));
                                    break;
                                }
                            }
                        }
                        st
                    })
                })
                .collect();
            hs.into_iter().map(|h| h.join().expect("burst thread")).collect()
        });
        for r in results {
            st.merge(r);
        }
    }
    print_stage(ctx, &mut st, ctx.seed ^ 0x9c16, ctx.tier.pick(80, 1200));
    let mut rep = Report::new(
        st,
        "jobs = all 40 sizes x 4 levels x payloads (capacity-filling + random; thorough: x 8 mask slots), mask rotating over forced 0..7 and automatic; to_str() is split into lines, every character mapped to a (top, bottom) pair (space = dark/dark, U+2588 = light/light, U+2580 = light/dark, U+2584 = dark/light) and the resulting grid compared cell by cell with a one-module light border around the module values; crafted byte payloads make the data area of the final symbol uniformly dark / light / striped (24 targets x versions, with the matching forced mask); a concurrent burst (16 threads released from a barrier, 1,500 renders each, quick; 20,000 thorough, of pre-built symbols of 12 sizes, every text decoded); print() is observed through a pipe: a child process prints 80 (thorough 1,200) symbols covering every version between marker lines, each block is judged like a to_str() result; jobs are executed in shuffled order and every second job first renders (and checks) a symbol of an unrelated size on the same thread, so each rendering happens after bigger and after smaller ones; distinct key = (options, len, payload hash); every case non-trivial",
    );
    rep.expected_sets = vec![("sizes", 40), ("sizes_printed", 40)];
    rep.required_sets = vec![("sizes", 40), ("sizes_printed", 40)];
    rep.min_evaluations = 480;
    rep
}

/// The configurations whose symbols the child prints: every version at least twice (capacity-filling and short).
fn print_cases(caps: &oracle::tables::Caps, seed: u64, n: usize) -> Vec<adapter::Config> {
    (0..n)
        .map(|i| {
            let v = 1 + i % 40;
            let level = (i / 40 + i) % 4;
            let cap = caps.cap(v, level, 2);
            let len = if (i / 40) % 2 == 0 { cap } else { 1 + mix(seed, i as u64) as usize % cap.max(1) };
            adapter::Config { input: crate::job::gen_payload(2, len, i % GEN_COUNT, mix(seed, 0x9c16 + i as u64)), mode: Some(2), level: Some(level), version: Some(v), mask: rotate_mask(i) }
        })
        .collect()
}

/// child side: `vcheck c16-child <seed> <n>` builds the cases and calls `QRCode::print()` on each, between marker
/// lines. `print()` writes to the process's stdout, so it can only be observed from outside the process.
pub fn child_main(seed: u64, n: usize) -> i32 {
    let caps = oracle::tables::Caps::new();
    for (i, cfg) in print_cases(&caps, seed, n).iter().enumerate() {
        match adapter::build_canonical(cfg) {
            Outcome::Ok(q) => {
                println!("@@C16 BEGIN {i}");
                q.print();
                println!("@@C16 END {i}");
            }
            other => println!("@@C16 NOSYMBOL {i} {}", other.kind()),
        }
    }
    0
}

/// `print()` observed through a pipe: the child's stdout is cut at the markers, the `println!` newline removed, and
/// each block judged exactly like a `to_str()` result against the same symbol rebuilt in this process.
fn print_stage(ctx: &Ctx, st: &mut Stats, seed: u64, n: usize) {
    let exe = match std::env::current_exe() {
        Ok(e) => e,
        Err(e) => {
            st.inconclusive(format!("print stage: current_exe: {e}"));
            return;
        }
    };
    let out = match std::process::Command::new(exe).args(["c16-child", &seed.to_string(), &n.to_string()]).stdin(std::process::Stdio::null()).stderr(std::process::Stdio::null()).output() {
        Ok(o) => o,
        Err(e) => {
            st.inconclusive(format!("print stage: cannot start the child: {e}"));
            return;
        }
    };
    let jobj = |i: usize| json!({"fam": "print-to-stdout", "seed": seed, "n": n, "index": i});
    if !out.status.success() {
        st.violation(ID, "print-child-died", format!("the process that calls print() on {n} symbols ended with {:?}", out.status), jobj(0));
        return;
    }
    let text = match String::from_utf8(out.stdout) {
        Ok(t) => t,
        Err(_) => {
            st.violation(ID, "print-not-utf8", "print() wrote bytes that are not UTF-8".into(), jobj(0));
            return;
        }
    };
    let cases = print_cases(&ctx.caps, seed, n);
    let mut seen = 0usize;
    for (i, cfg) in cases.iter().enumerate() {
        st.eval();
        let begin = format!("@@C16 BEGIN {i}\n");
        let end = format!("\n@@C16 END {i}\n");
        let qr = match adapter::build_canonical(cfg) {
            Outcome::Ok(q) => q,
            other => {
                st.inconclusive(format!("print stage: workload bug, case {i} does not build here: {}", other.describe()));
                return;
            }
        };
        let (a, b) = match (text.find(&begin), text.find(&end)) {
            (Some(a), Some(b)) if a + begin.len() <= b => (a + begin.len(), b),
            _ => {
                // the block's own last newline may be missing: then END is glued to the last line
                st.violation(ID, "print/markers", format!("the output of print() for case {i} (version {}) is not followed by a line break: the marker line written right after it does not start a line", cfg.version.unwrap_or(0)), jobj(i));
                return;
            }
        };
        let block = &text[a..b];
        match svgcheck::check_terminal(block, &qr) {
            Ok(c) => {
                st.count("cells_decoded_from_text", c);
                st.count("print_calls_observed_through_a_pipe", 1);
                st.reach("sizes_printed", qr.size as u64);
                seen += 1;
            }
            Err(v) => {
                st.violation(ID, &format!("print/{}", v.0), format!("print() of a version {} symbol: {}", cfg.version.unwrap_or(0), v.1), jobj(i));
                return;
            }
        }
    }
    if seen == 0 {
        st.inconclusive("print stage: no print() output was observed".to_string());
    }
}

pub fn replay(ctx: &Ctx, job: &serde_json::Value) -> Option<Stats> {
    if job.get("fam").and_then(|f| f.as_str()) == Some("print-to-stdout") {
        let mut st = Stats::new();
        print_stage(ctx, &mut st, job.get("seed")?.as_u64()?, job.get("n")?.as_u64()? as usize);
        return Some(st);
    }
    let job = Job::from_json(job, &FAMS)?;
    let mut st = Stats::new();
    observe(ctx, &mut st, &job);
    Some(st)
}
