//! C13 — raster / PNG output reproduces the matrix at module centres.

use crate::adapter::{self, Outcome};
use crate::fw::{Ctx, Report, Tier};
use crate::job::{Job, GEN_COUNT};
use crate::pool;
use crate::props::c12::RJob;
use crate::render::{Colour, Spec, SHAPE_NAMES};
use crate::sanit;
use crate::stats::Stats;
use oracle::png;
use oracle::rng::{mix, Rng};
use serde_json::{json, Value};

pub const ID: &str = "C13";
pub const FAMS: [&str; 2] = ["render", "exact-dark-count"];

pub fn jobs(ctx: &Ctx) -> Vec<RJob> {
    let versions: Vec<usize> = ctx.tier.pick(vec![1, 2, 3, 5, 7, 10, 14, 20, 27, 40], (1..=40).collect());
    let mut out = Vec::new();
    let mut k = 0u64;
    let reps = ctx.tier.pick(1, ctx.scale(5));
    for &v in &versions {
        for shape in 0..6usize {
            for (mi, &margin) in [0usize, 1, 4, 2 + (v * 7 + shape) % 7].iter().enumerate() {
                for fit in 0..4usize {
                    for _ in 0..reps {
                        k += 1;
                        let mut rng = Rng::new(mix(ctx.seed, k));
                        // big symbols are expensive to rasterise: thin them out in the quick tier
                        if ctx.tier == Tier::Quick && v >= 20 && (k + shape as u64 + mi as u64) % 3 != 0 {
                            continue;
                        }
                        let level = rng.below(4);
                        let class = rng.below(3);
                        let cap = ctx.caps.cap(v, level, class);
                        let job = Job { fam: FAMS[0], class, mode: Some(class), level: Some(level), version: Some(v), mask: Some(rng.below(8)), len: rng.below(cap + 1), gen: rng.below(GEN_COUNT), seed: mix(ctx.seed, k ^ 0x13), ..Default::default() };
                        let s_units = (17 + 4 * v + 2 * margin) as f64;
                        // pixels per module: integer 1..3 (exact for squares) or >= 4 (centre sampling)
                        let ppm: f64 = match rng.below(6) {
                            0 => 1.0 + rng.below(3) as f64,
                            1 => 4.0,
                            2 => 5.0,
                            3 => 4.0 + 2.0 * rng.f64(),
                            4 => 6.0,
                            _ => 4.0 + rng.below(4) as f64 + 0.5,
                        };
                        let p = (s_units * ppm).round().max(1.0) as u32;
                        let mut spec = Spec { margin: Some(margin), ..Default::default() };
                        if shape != 0 || rng.chance(1, 2) {
                            spec.layers.push((shape, None));
                        }
                        match fit {
                            0 => {}
                            1 => spec.fit_width = Some(p),
                            2 => spec.fit_height = Some(p),
                            _ => {
                                // the two requests coincide a quarter of the time (w == h), otherwise the other one is larger
                                let other = if rng.chance(1, 4) { p } else { p + rng.below(200) as u32 };
                                if rng.chance(1, 2) {
                                    spec.fit_width = Some(p);
                                    spec.fit_height = Some(other);
                                } else {
                                    spec.fit_width = Some(other);
                                    spec.fit_height = Some(p);
                                }
                            }
                        }
                        // colour pair
                        match rng.below(8) {
                            0 => {}
                            6 | 7 => {
                                // colours written as text in the notations CSS/SVG offer (three/four-digit shorthand,
                                // eight digits, keyword names, rgb()): the pixel must be the colour the text denotes
                                // (only notations whose value is pinned: `rebeccapurple` is not SVG 1.1)
                                let pinned = |rng: &mut Rng, alpha: bool| loop {
                                    let c = crate::render::random_text_notation(rng, alpha);
                                    if c.rgba().is_some() {
                                        break c;
                                    }
                                };
                                spec.module_color = Some(pinned(&mut rng, false));
                                spec.background = Some(if rng.chance(1, 3) { Colour::Rgb([rng.byte(), rng.byte(), rng.byte()]) } else { pinned(&mut rng, true) });
                            }
                            5 => {
                                // translucent BACKGROUND (alpha strictly between 0 and 255), opaque modules
                                spec.module_color = Some(Colour::Rgb([rng.byte(), rng.byte(), rng.byte()]));
                                spec.background = Some(Colour::Rgba([rng.byte(), rng.byte(), rng.byte(), *rng.pick(&[1u8, 64, 128, 200, 254])]));
                            }
                            1 => {
                                spec.background = Some(Colour::Rgba([255, 255, 255, 0]));
                            }
                            2 => {
                                spec.module_color = Some(Colour::Rgb([rng.byte(), rng.byte(), rng.byte()]));
                                spec.background = Some(Colour::Rgb([rng.byte(), rng.byte(), rng.byte()]));
                            }
                            3 => {
                                spec.module_color = Some(Colour::Rgba([rng.byte(), rng.byte(), rng.byte(), 255]));
                                spec.background = Some(Colour::Rgba([rng.byte(), rng.byte(), rng.byte(), 0]));
                            }
                            _ => {
                                // RoundedSquare is drawn as fill + overlapping stroke of the same colour: with a
                                // semi-transparent colour the overlap is blended twice, so "the module colour" is
                                // not a single value there; keep that shape opaque
                                let alpha = if shape == 2 { 255 } else { *rng.pick(&[64u8, 128, 200]) };
                                spec.module_color = Some(Colour::Rgba([rng.byte(), rng.byte(), rng.byte(), alpha]));
                                spec.background = Some(Colour::Rgb([rng.byte(), rng.byte(), rng.byte()]));
                            }
                        }
                        out.push(RJob { job, spec });
                    }
                }
            }
        }
    }
    // big pictures: sides beyond 4096 and 8192 pixels, by request (fit) and by a huge quiet zone at original scale
    {
        let big: Vec<(usize, usize, Option<u32>, usize)> = vec![(1, 0, Some(4097), 0), (2, 1, Some(4800), 2), (3, 0, Some(4096), 5), (1, 2040, None, 0), (1, 4, Some(8200), 0), (2, 2048, None, 0), (5, 0, Some(6000), 1), (1, 1, Some(12_000), 0)];
        for (i, (v, margin, fit, shape)) in big.into_iter().enumerate() {
            if ctx.tier == Tier::Quick && i >= 4 {
                break;
            }
            k += 1;
            let mut rng = Rng::new(mix(ctx.seed, k ^ 0xb16));
            let level = rng.below(4);
            let cap = ctx.caps.cap(v, level, 2);
            let job = Job { fam: FAMS[0], class: 2, mode: Some(2), level: Some(level), version: Some(v), mask: Some(rng.below(8)), len: 1 + rng.below(cap), gen: rng.below(GEN_COUNT), seed: mix(ctx.seed, k ^ 0x13) | 1, ..Default::default() };
            let mut spec = Spec { margin: Some(margin), ..Default::default() };
            if shape != 0 {
                spec.layers.push((shape, None));
            }
            if i % 2 == 0 {
                spec.fit_width = fit;
            } else {
                spec.fit_height = fit;
            }
            out.push(RJob { job, spec });
        }
    }
    // symbols whose number of dark modules is exactly a power of two / a multiple of 4096 (found by search)
    for (i, (v, dk)) in Job::dark_count_cells().into_iter().enumerate() {
        if ctx.tier == Tier::Quick && v > 27 && i % 2 == 0 {
            continue;
        }
        k += 1;
        let mut rng = Rng::new(mix(ctx.seed, k ^ 0xdb));
        let job = Job::dark_count(FAMS[1], dk, v, rng.below(2), rng.below(8), mix(ctx.seed, k));
        let shape = rng.below(6);
        let mut spec = Spec { margin: Some(rng.below(3)), ..Default::default() };
        if shape != 0 {
            spec.layers.push((shape, None));
        }
        spec.fit_width = Some(((17 + 4 * v + 2 * spec.margin_value()) * 4) as u32);
        out.push(RJob { job, spec });
    }
    out
}

fn premul(c: [u8; 4]) -> [f64; 4] {
    let a = c[3] as f64 / 255.0;
    [c[0] as f64 * a, c[1] as f64 * a, c[2] as f64 * a, c[3] as f64]
}

/// source-over of `top` on `bottom`, both straight RGBA; result premultiplied (float)
fn over(top: [u8; 4], bottom: [u8; 4]) -> [f64; 4] {
    let t = premul(top);
    let b = premul(bottom);
    let ta = top[3] as f64 / 255.0;
    [t[0] + b[0] * (1.0 - ta), t[1] + b[1] * (1.0 - ta), t[2] + b[2] * (1.0 - ta), t[3] + b[3] * (1.0 - ta)]
}

fn close(px: &[u8], want: [f64; 4], tol: f64) -> bool {
    (0..4).all(|i| (px[i] as f64 - want[i]).abs() <= tol)
}

pub fn observe(_ctx: &Ctx, st: &mut Stats, rj: &RJob) {
    let owned = match rj.materialise(st) {
        Some(r) => r,
        None => return,
    };
    let rj = &owned;
    let cfg = rj.job.config();
    st.eval();
    let qr = match adapter::build(&cfg) {
        Outcome::Ok(q) => q,
        other => {
            st.violation(ID, "no-symbol", format!("crate returned {}", other.describe()), rj.to_json());
            return;
        }
    };
    // "every QR code": a quarter of the symbols are edited through the public API before they are rendered (modules
    // toggled, the whole symbol inverted, function patterns forced light/dark, type labels rewritten); the picture must
    // follow the module values of what it is given
    let mut edit_note = String::new();
    let qr = if rj.job.seed % 4 == 2 {
        let (e, what) = adapter::edited_by_hand(&qr, rj.job.seed);
        st.count("symbols_edited_by_hand_before_rendering", 1);
        edit_note = format!(" [symbol edited by hand before rendering: {what}]");
        Box::new(e)
    } else {
        qr
    };
    // every third render is preceded, on the same thread, by a render of the same symbol with MORE shape layers and
    // other colours (result discarded): whatever a renderer keeps between calls must not leak into the next image
    if rj.job.seed % 3 == 0 {
        let mut primer = rj.spec.clone();
        primer.layers = vec![(1, Some(Colour::Rgb([200, 30, 30]))), (5, None), (3, Some(Colour::Rgba([0, 90, 200, 255])))];
        primer.module_color = Some(Colour::Rgb([10, 120, 10]));
        let _ = adapter::guarded(|| primer.svg_builder().to_str(&qr));
        st.count("multi_layer_renders_before_the_measured_one", 1);
    }
    let fail = |st: &mut Stats, kind: &str, detail: String| {
        st.violation(ID, kind, format!("{detail} [qr {}; spec {}]{edit_note}", cfg.describe(), rj.spec.describe()), rj.to_json());
    };
    let before = adapter::digest(&qr);
    let ib = rj.spec.image_builder_for(Some(&qr));
    let pix = match adapter::guarded(|| ib.to_pixmap(&qr)) {
        Ok(p) => p,
        Err(p) => return fail(st, "render-panic", p),
    };
    if adapter::digest(&qr) != before {
        return fail(st, "render-mutates", "to_pixmap modified the QRCode".into());
    }
    let n = qr.size;
    let margin = rj.spec.margin_value();
    let units = n + 2 * margin;
    let want_side = match (rj.spec.fit_width, rj.spec.fit_height) {
        (None, None) => units as u32,
        (Some(w), None) => w,
        (None, Some(h)) => h,
        (Some(w), Some(h)) => w.min(h),
    };
    let (w, h) = (pix.width(), pix.height());
    if w != h || w != want_side {
        return fail(st, "pixmap-size", format!("pixmap is {w} x {h}, expected a square of side {want_side}"));
    }
    if w >= 4096 {
        st.reach("pixmap_sides_of_4096_and_more", w as u64);
    }
    let data = pix.data();
    let scale = w as f64 / units as f64;
    let bg = rj.spec.background_colour().rgba().unwrap();
    let fg = rj.spec.module_colour().rgba().unwrap();
    let want_bg = premul(bg);
    let want_fg = over(fg, bg);
    let exact_cols = fg[3] == 255 && (bg[3] == 255 || bg[3] == 0);
    let tol = if exact_cols { 0.0 } else { 2.0 };
    let shape = rj.spec.layers.first().map(|l| l.0).unwrap_or(0);
    let px_at = |x: usize, y: usize| -> &[u8] { &data[(y * w as usize + x) * 4..(y * w as usize + x) * 4 + 4] };
    let mut centres = 0u64;
    let mut full = 0u64;
    let integer_scale = scale.fract() == 0.0 && scale >= 1.0;
    if scale >= 4.0 || (shape == 0 && integer_scale) {
        for row in 0..units {
            for col in 0..units {
                let inside = row >= margin && col >= margin && row < margin + n && col < margin + n;
                let dark = inside && qr.data[(row - margin) * n + (col - margin)].value();
                let want = if dark { want_fg } else { want_bg };
                if shape == 0 && integer_scale {
                    let k = scale as usize;
                    for dy in 0..k {
                        for dx in 0..k {
                            let p = px_at(col * k + dx, row * k + dy);
                            if !close(p, want, tol) {
                                return fail(st, "pixel-mismatch", format!("Square at integer scale {k}: pixel ({}, {}) of cell (column {col}, row {row}) is {:?} (premultiplied), expected {:?} ({})", col * k + dx, row * k + dy, p, want, if dark { "dark module" } else if inside { "light module" } else { "quiet zone" }));
                            }
                            full += 1;
                        }
                    }
                } else {
                    let x = (((col as f64) + 0.5) * scale).floor() as usize;
                    let y = (((row as f64) + 0.5) * scale).floor() as usize;
                    let p = px_at(x.min(w as usize - 1), y.min(w as usize - 1));
                    if !close(p, want, tol) {
                        return fail(st, "centre-pixel-mismatch", format!("{} at {:.3} px/module: centre pixel ({x}, {y}) of cell (column {col}, row {row}) is {:?} (premultiplied), expected {:?} ({})", SHAPE_NAMES[shape], scale, p, want, if dark { "dark module" } else if inside { "light module" } else { "quiet zone" }));
                    }
                    centres += 1;
                }
            }
        }
    } else {
        st.count("size_only_renders", 1);
    }
    st.count("centre_pixels_compared", centres);
    st.count("cell_pixels_compared", full);
    // PNG bytes decode to the same pixels
    let bytes = match adapter::guarded(|| ib.to_bytes(&qr)) {
        Ok(Ok(b)) => b,
        Ok(Err(e)) => return fail(st, "to-bytes-error", format!("to_bytes returned an error: {e}")),
        Err(p) => return fail(st, "render-panic", p),
    };
    let img = match png::decode(&bytes) {
        Ok(i) => i,
        Err(e) => return fail(st, "png-undecodable", format!("PNG reader: {e}")),
    };
    if img.width != w as usize || img.height != h as usize {
        return fail(st, "png-size", format!("PNG is {} x {}, pixmap {w} x {h}", img.width, img.height));
    }
    for i in 0..(w * h) as usize {
        let p = &data[i * 4..i * 4 + 4];
        let q = &img.rgba[i * 4..i * 4 + 4];
        let a = p[3];
        if q[3] != a {
            return fail(st, "png-pixel-mismatch", format!("pixel {i}: alpha {} in PNG, {} in pixmap", q[3], a));
        }
        let ok = match a {
            0 => q[..3] == [0, 0, 0] || true, // colour under alpha 0 is not observable
            255 => q[..3] == p[..3],
            _ => (0..3).all(|c| ((q[c] as f64) - (p[c] as f64 * 255.0 / a as f64)).abs() <= 1.0),
        };
        if !ok {
            return fail(st, "png-pixel-mismatch", format!("pixel ({}, {}): PNG {:?}, pixmap (premultiplied) {:?}", i % w as usize, i / w as usize, q, p));
        }
    }
    st.count("png_pixels_compared", (w * h) as u64);
    st.reach("versions", qr.version.map(adapter::version_no).unwrap_or(0) as u64);
    st.reach("shapes", shape as u64);
    st.reach("fit_kinds", (rj.spec.fit_width.is_some() as u64) | (rj.spec.fit_height.is_some() as u64) << 1);
    st.reach("margins", margin as u64);
    if bg[3] == 0 {
        st.count("transparent_background_renders", 1);
    }
    st.distinct(mix(rj.job.key(&cfg.input), oracle::rng::fnv(rj.spec.describe().as_bytes())));
    st.sample(37, || json!({"qr": cfg.describe(), "spec": rj.spec.to_json(), "pixmap_side": w, "px_per_module": scale}));
}

pub fn run(ctx: &Ctx) -> Report {
    let jobs = jobs(ctx);
    let mut st = pool::run(&jobs, ctx.remaining(), |st, job, _| observe(ctx, st, job));
    let mut extra = vec![];
    if ctx.tier == Tier::Thorough {
        sanit::asan_stage(ctx).apply(ID, &mut st, &mut extra);
    }
    let mut rep = Report::new(
        st,
        "jobs = versions {1,2,7,10,20,40} (thorough: all 40) x 6 built-in shapes x margins {0,1,4} x fit {none, width only, height only, both (smaller one decides)} + big pictures (sides 4096, 4097, 4800, 4101 by a quiet zone of 2040 modules; thorough: 6000, 8200, 4121 by quiet zone, 12000) at integer 1-3 px/module and 4.0-7.5 px/module (integer and fractional) x colour pairs {default, transparent background, random opaque, random on alpha-0 background, semi-transparent modules}; observed: pixmap side == size+2*margin or the requested square; pixel at the centre of every cell (dark -> module colour, light and quiet zone -> background) when >= 4 px/module, every pixel of every cell for Square at integer scale; PNG bytes decoded by an own PNG reader (CRC, inflate, unfilter) equal the pixmap; thorough adds the ASan stage over usvg/resvg/tiny-skia; distinct key = (qr options, payload hash, spec); every render non-trivial",
    );
    rep.expected_sets = vec![("shapes", 6), ("fit_kinds", 4), ("margins", 3)];
    rep.required_sets = vec![("shapes", 6), ("fit_kinds", 4), ("margins", 3)];
    rep.min_evaluations = 250;
    rep.extra = extra;
    rep.assumptions = vec![
        "requests below one pixel per module are outside the quantifier; centre sampling is only asserted at >= 4 px/module".into(),
        "semi-transparent module colours are compared with source-over blending at tolerance 2/255".into(),
    ];
    rep
}

pub fn replay(ctx: &Ctx, job: &Value) -> Option<Stats> {
    let rj = RJob::from_json(job, &FAMS)?;
    let mut st = Stats::new();
    observe(ctx, &mut st, &rj);
    Some(st)
}
