//! C14 — building is a pure function of input and options, on any thread, in any order;
//! rendering depends only on the QR code and the renderer's final options.

use crate::adapter::{self, Config, Outcome, LEVELS, MASKS, MODES, VERSIONS};
use crate::fw::{Ctx, Report, Tier};
use crate::job::{gen_payload, GEN_COUNT};
use crate::pool;
use crate::render::{self, apply_image_op, apply_op, Spec};
use crate::sanit;
use crate::stats::Stats;
use fast_qr::convert::image::ImageBuilder;
use fast_qr::convert::svg::SvgBuilder;
use fast_qr::QRBuilder;
use oracle::rng::{fnv, mix, Rng};
use serde_json::{json, Value};
use std::sync::atomic::{AtomicUsize, Ordering};

pub const ID: &str = "C14";

#[derive(Clone, Debug)]
pub enum J {
    /// builder call history (seeded)
    BuildHistory { seed: u64 },
    /// renderer call history (seeded)
    RenderHistory { seed: u64, png: bool },
    /// schedule: `threads` threads run a shuffle of the same job list
    Schedule { seed: u64, threads: usize, njobs: usize },
    /// cold start: a FRESH PROCESS in which `threads` threads are released from a barrier into their very first
    /// calls of the crate (lazily initialised state is built under contention exactly once per process)
    ColdStart { seed: u64, threads: usize, njobs: usize },
}

impl J {
    fn to_json(&self) -> Value {
        match self {
            J::BuildHistory { seed } => json!({"fam": "build-history", "seed": seed.to_string()}),
            J::RenderHistory { seed, png } => json!({"fam": "render-history", "seed": seed.to_string(), "png": png}),
            J::Schedule { seed, threads, njobs } => json!({"fam": "schedule", "seed": seed.to_string(), "threads": threads, "njobs": njobs}),
            J::ColdStart { seed, threads, njobs } => json!({"fam": "cold-start", "seed": seed.to_string(), "threads": threads, "njobs": njobs}),
        }
    }
    fn from_json(v: &Value) -> Option<J> {
        let seed = v.get("seed")?.as_str()?.parse().ok()?;
        Some(match v.get("fam")?.as_str()? {
            "build-history" => J::BuildHistory { seed },
            "render-history" => J::RenderHistory { seed, png: v.get("png")?.as_bool()? },
            "schedule" => J::Schedule { seed, threads: v.get("threads")?.as_u64()? as usize, njobs: v.get("njobs")?.as_u64()? as usize },
            "cold-start" => J::ColdStart { seed, threads: v.get("threads")?.as_u64()? as usize, njobs: v.get("njobs")?.as_u64()? as usize },
            _ => return None,
        })
    }
}

pub fn jobs(ctx: &Ctx) -> Vec<J> {
    let mut out = Vec::new();
    let nb = ctx.tier.pick(2_000, ctx.scale(150_000));
    let nr = ctx.tier.pick(700, ctx.scale(40_000));
    for k in 0..nb {
        out.push(J::BuildHistory { seed: mix(ctx.seed, k as u64 ^ 0xb14) });
    }
    for k in 0..nr {
        out.push(J::RenderHistory { seed: mix(ctx.seed, k as u64 ^ 0xa14), png: k % 4 == 0 });
    }
    out
}

fn outcome_digest(o: &Outcome) -> u64 {
    match o {
        Outcome::Ok(q) => adapter::digest(q),
        Outcome::TooBig => 1,
        Outcome::VersionTooSmall => 2,
        Outcome::Panic(_) => 3,
    }
}

fn random_input(rng: &mut Rng, max_version: usize, caps: &oracle::tables::Caps) -> (Vec<u8>, usize) {
    let class = rng.below(3);
    let v = 1 + rng.below(max_version);
    let cap = caps.cap(v, rng.below(4), class);
    let len = rng.below(cap + 1);
    (gen_payload(class, len, rng.below(GEN_COUNT), rng.next_u64()), class)
}

fn build_history(ctx: &Ctx, st: &mut Stats, seed: u64, j: &J) {
    let mut rng = Rng::new(seed);
    let max_v = if rng.chance(1, 6) { 40 } else { 12 };
    let (input, class) = random_input(&mut rng, max_v, &ctx.caps);
    let mut b = QRBuilder::new(input.clone());
    let mut model = Config::new(&input);
    let nops = 1 + rng.below(14);
    let mut log: Vec<String> = Vec::new();
    let mut builds = 0;
    let mut foreign_mode_pending = false;
    for step in 0..=nops {
        let last = step == nops;
        let choice = if last { 4 } else { rng.below(8) };
        match choice {
            0 => {
                // only modes whose alphabet contains the input are inside the property AT BUILD TIME; a third of the
                // calls name any mode, also one that does not contain the input: such a value is replaced (below) before
                // the next build and must leave no trace, not even on the stored input
                let m = if rng.chance(1, 3) { rng.below(3) } else { class.max(rng.below(3)) };
                b.mode(MODES[m]);
                log.push(format!("mode({m})"));
                if m >= class {
                    model.mode = Some(m);
                    foreign_mode_pending = false;
                } else {
                    foreign_mode_pending = true;
                    st.count("intermediate_modes_outside_the_input_alphabet", 1);
                }
            }
            1 => {
                let l = rng.below(4);
                b.ecl(LEVELS[l]);
                model.level = Some(l);
                log.push(format!("ecl({l})"));
            }
            2 => {
                let v = 1 + rng.below(40);
                b.version(VERSIONS[v - 1]);
                model.version = Some(v);
                log.push(format!("version({v})"));
            }
            3 => {
                let m = rng.below(8);
                b.mask(MASKS[m]);
                model.mask = Some(m);
                log.push(format!("mask({m})"));
            }
            4 | 5 => {
                // build on the used builder; compare with a FRESH builder holding only the
                // final option values, executed on a fresh thread
                if foreign_mode_pending {
                    let m = class.max(rng.below(3));
                    b.mode(MODES[m]);
                    model.mode = Some(m);
                    log.push(format!("mode({m})"));
                    foreign_mode_pending = false;
                }
                let reps = if rng.chance(1, 4) { 1 + rng.below(4) } else { 1 };
                for _ in 0..reps {
                    st.eval();
                    let got = adapter::outcome_of(adapter::guarded(|| b.build()));
                    let m2 = model.clone();
                    let want = pool::on_fresh_thread(move || outcome_digest(&adapter::build_canonical(&m2)));
                    builds += 1;
                    log.push("build()".into());
                    if outcome_digest(&got) != want {
                        st.violation(
                            ID,
                            "history-dependence",
                            format!("build #{builds} after calls [{}] ({}) differs from a fresh builder with the same final options ({}) built on a fresh thread", log.join(", "), got.describe(), model.describe()),
                            j.to_json(),
                        );
                        return;
                    }
                    if let Outcome::Panic(m) = &got {
                        st.violation(ID, "panic", format!("build panicked: {m}"), j.to_json());
                        return;
                    }
                    st.count("builds_compared_with_fresh_builder", 1);
                }
            }
            6 => {
                // an unrelated build in between (big or small)
                let mv = if rng.chance(1, 3) { 40 } else { 6 };
                let (other, _) = random_input(&mut rng, mv, &ctx.caps);
                let _ = adapter::build(&Config::new(&other));
                log.push(format!("other_build(len {})", other.len()));
                st.count("unrelated_builds_interleaved", 1);
            }
            _ => {
                // A, B, A: the very same request twice with something else in between
                if foreign_mode_pending {
                    let m = class.max(rng.below(3));
                    b.mode(MODES[m]);
                    model.mode = Some(m);
                    log.push(format!("mode({m})"));
                    foreign_mode_pending = false;
                }
                st.eval();
                let a1 = outcome_digest(&adapter::outcome_of(adapter::guarded(|| b.build())));
                let (other, _) = random_input(&mut rng, 40, &ctx.caps);
                let _ = adapter::build(&Config::new(&other));
                let a2 = outcome_digest(&adapter::outcome_of(adapter::guarded(|| b.build())));
                log.push("build();other;build()".into());
                if a1 != a2 {
                    st.violation(ID, "aba-dependence", format!("the same builder built twice with another build in between gave different results after [{}]", log.join(", ")), j.to_json());
                    return;
                }
                st.count("aba_sequences", 1);
            }
        }
    }
    st.reach("history_lengths", nops as u64);
    st.distinct(fnv(log.join(",").as_bytes()) ^ fnv(&input));
    st.sample(257, || json!({"family": "build-history", "input_len": input.len(), "calls": log}));
}

fn render_history(ctx: &Ctx, st: &mut Stats, seed: u64, png: bool, j: &J) {
    let mut rng = Rng::new(seed);
    let (input, _) = random_input(&mut rng, if png { 6 } else { 14 }, &ctx.caps);
    let qr = match adapter::build(&Config::new(&input)) {
        Outcome::Ok(q) => q,
        other => {
            st.violation(ID, "no-symbol", other.describe(), j.to_json());
            return;
        }
    };
    let mut spec: Spec = render::random_svg_spec(&mut rng, qr.size, true);
    if spec.margin == Some(qr.size) && png {
        spec.margin = Some(2);
    }
    if spec.image.is_some() && rng.chance(1, 2) {
        spec.image_size = Some((rng.f64() * 8.0 * 100.0).round() / 100.0 + 1.0);
        if rng.chance(1, 2) {
            spec.image_gap = Some(rng.f64() * 3.0);
        }
        if rng.chance(1, 2) {
            spec.image_position = Some((rng.f64() * 20.0 + 5.0, rng.f64() * 20.0 + 5.0));
        }
    }
    if png {
        // raster path: keep strings that usvg can load out (no external image), colours parseable
        spec.image = None;
        spec.image_bg_shape = None;
        spec.image_bg_color = None;
        spec.image_size = None;
        spec.image_gap = None;
        spec.image_position = None;
        if rng.chance(1, 2) {
            spec.fit_width = Some(60 + rng.below(200) as u32);
        }
        if rng.chance(1, 3) {
            spec.fit_height = Some(60 + rng.below(200) as u32);
        }
    }
    let hist = spec.noisy_history(&mut rng);
    let before = adapter::digest(&qr);
    st.eval();
    // what the renderers return on a thread that has never rendered anything (fresh thread-locals):
    // the worker thread below has rendered many other symbols of other sizes before this one
    let reference = {
        let (qr2, spec2) = (qr.clone(), spec.clone());
        pool::on_fresh_thread(move || {
            adapter::guarded(|| {
                let svg = spec2.svg_builder_canonical().to_str(&qr2);
                let term = qr2.to_str();
                let png_bytes = if png { spec2.image_builder_canonical().to_bytes(&qr2).ok() } else { None };
                (svg, term, png_bytes)
            })
        })
    };
    // ... and half of the time another, unrelated symbol (often a bigger one) is rendered right before
    if rng.chance(1, 2) {
        let mv = if rng.chance(1, 2) { 40 } else { 8 };
        let (other, _) = random_input(&mut rng, mv, &ctx.caps);
        if let Outcome::Ok(oq) = adapter::build(&Config::new(&other)) {
            let _ = adapter::guarded(|| {
                let _ = oq.to_str();
                let _ = SvgBuilder::default().to_str(&oq);
            });
            st.count("unrelated_renders_interleaved", 1);
        }
    }
    let fail = |st: &mut Stats, kind: &str, detail: String| st.violation(ID, kind, format!("{detail} [final options {}; history of {} calls]", spec.describe(), hist.len()), j.to_json());
    // SVG: builder with the noisy history, rendered twice; fresh builder with final values only
    let r = adapter::guarded(|| {
        let mut used = SvgBuilder::default();
        for op in &hist {
            apply_op(&mut used, op);
        }
        let a = used.to_str(&qr);
        let b = used.to_str(&qr);
        let fresh = spec.svg_builder_canonical().to_str(&qr);
        (a, b, fresh)
    });
    let (a, b, fresh) = match r {
        Ok(x) => x,
        Err(p) => return fail(st, "render-panic", p),
    };
    if a != b {
        return fail(st, "svg-not-repeatable", "the same SvgBuilder rendered the same QRCode twice with different output".into());
    }
    if a != fresh {
        let at = a.bytes().zip(fresh.bytes()).position(|(x, y)| x != y).unwrap_or(0);
        return fail(st, "svg-history-dependence", format!("SVG after a call history differs from a fresh builder with the final values at byte {at}"));
    }
    st.count("svg_renders_compared", 3);
    // terminal
    let t1 = qr.to_str();
    let t2 = qr.to_str();
    if t1 != t2 {
        return fail(st, "terminal-not-repeatable", "to_str() returned two different strings".into());
    }
    st.count("terminal_renders_compared", 2);
    let (ref_svg, ref_term, ref_png) = match reference {
        Ok(x) => x,
        Err(p) => return fail(st, "render-panic", format!("on a fresh thread: {p}")),
    };
    if a != ref_svg {
        let at = a.bytes().zip(ref_svg.bytes()).position(|(x, y)| x != y).unwrap_or(a.len().min(ref_svg.len()));
        return fail(st, "svg-thread-history-dependence", format!("SVG rendered on a thread that rendered other symbols before differs from the same rendering on a fresh thread at byte {at} (lengths {} / {})", a.len(), ref_svg.len()));
    }
    if t1 != ref_term {
        return fail(st, "terminal-thread-history-dependence", format!("to_str() on a thread that rendered other symbols before differs from the same call on a fresh thread (lengths {} / {})", t1.len(), ref_term.len()));
    }
    st.count("renders_equal_to_fresh_thread_reference", 2);
    if png {
        let r = adapter::guarded(|| {
            let mut used = ImageBuilder::default();
            for op in &hist {
                apply_image_op(&mut used, op);
            }
            let a = used.to_bytes(&qr).map_err(|e| e.to_string());
            let b = used.to_bytes(&qr).map_err(|e| e.to_string());
            let fresh = spec.image_builder_canonical().to_bytes(&qr).map_err(|e| e.to_string());
            (a, b, fresh)
        });
        match r {
            Ok((Ok(a), Ok(b), Ok(f))) => {
                if a != b {
                    return fail(st, "png-not-repeatable", "the same ImageBuilder produced different PNG bytes for the same QRCode".into());
                }
                if a != f {
                    return fail(st, "png-history-dependence", "PNG after a call history differs from a fresh builder with the final values".into());
                }
                if ref_png.as_ref() != Some(&a) {
                    return fail(st, "png-thread-history-dependence", "PNG rendered on a thread that rendered other symbols before differs from the same rendering on a fresh thread".into());
                }
                st.count("renders_equal_to_fresh_thread_reference", 1);
                st.count("png_renders_compared", 3);
            }
            Ok(other) => return fail(st, "png-error", format!("to_bytes failed: {:?}", (other.0.err(), other.1.err(), other.2.err()))),
            Err(p) => return fail(st, "render-panic", p),
        }
    }
    // the file system is a place to keep state too: every sixth history writes a BIGGER symbol and then this one to
    // the same path; what the file holds afterwards may depend on this symbol and these options only
    if seed % 6 == 0 {
        let dir = std::env::var_os("VCHECK_TARGET_DIR").map(std::path::PathBuf::from).unwrap_or_else(|| ctx.root.join("harness/target")).join("scratch");
        let _ = std::fs::create_dir_all(&dir);
        let path = dir.join(format!("c14-{}-{seed:016x}.{}", std::process::id(), if png { "png" } else { "svg" }));
        let path_s = path.to_string_lossy().to_string();
        let bigger = adapter::build(&Config { input: vec![b'Z'; 40], mode: None, level: Some(3), version: Some((qr.version.map(adapter::version_no).unwrap_or(1) + 6).min(40)), mask: None });
        let r = adapter::guarded(|| -> Result<(Vec<u8>, Vec<u8>), String> {
            if let Outcome::Ok(bq) = &bigger {
                if png {
                    spec.image_builder_canonical().to_file(bq, &path_s).map_err(|e| format!("{e:?}"))?;
                } else {
                    spec.svg_builder_canonical().to_file(bq, &path_s).map_err(|e| format!("{e:?}"))?;
                }
            }
            let want = if png {
                spec.image_builder_canonical().to_file(&qr, &path_s).map_err(|e| format!("{e:?}"))?;
                spec.image_builder_canonical().to_bytes(&qr).map_err(|e| format!("{e:?}"))?
            } else {
                spec.svg_builder_canonical().to_file(&qr, &path_s).map_err(|e| format!("{e:?}"))?;
                spec.svg_builder_canonical().to_str(&qr).into_bytes()
            };
            let got = std::fs::read(&path_s).map_err(|e| e.to_string())?;
            Ok((want, got))
        });
        let _ = std::fs::remove_file(&path);
        match r {
            Ok(Ok((want, got))) => {
                if want != got {
                    return fail(st, "file-history-dependence", format!("the file written for this symbol holds {} bytes, the in-memory rendering has {}: a bigger symbol had been written to the same path just before", got.len(), want.len()));
                }
                st.count("file_renders_after_a_bigger_symbol_at_the_same_path", 1);
            }
            Ok(Err(e)) => st.inconclusive(format!("file history: scratch write failed: {e}")),
            Err(p) => return fail(st, "render-panic", p),
        }
    }
    if adapter::digest(&qr) != before {
        return fail(st, "render-mutates", "rendering modified the QRCode".into());
    }
    st.count("qrcode_digests_unchanged_after_render", 1);
    st.reach("render_history_lengths", hist.len().min(40) as u64);
    for op in &hist {
        st.reach("renderer_setters_used", op.kind() as u64);
    }
    st.distinct(fnv(format!("{hist:?}").as_bytes()) ^ fnv(&input));
    st.sample(101, || json!({"family": "render-history", "input_len": input.len(), "calls": hist.len(), "final": spec.to_json(), "png": png}));
}

/// one unit of the schedule workload: deterministic digest of build + renders
fn schedule_unit(seed: u64, caps: &oracle::tables::Caps) -> u64 {
    let mut rng = Rng::new(seed);
    let mv = if rng.chance(1, 8) { 40 } else if rng.chance(1, 2) { 14 } else { 6 };
    let (input, class) = random_input(&mut rng, mv, caps);
    let mut cfg = Config::new(&input);
    if rng.chance(1, 2) {
        cfg.mode = Some(class.max(rng.below(3)));
    }
    if rng.chance(1, 2) {
        cfg.level = Some(rng.below(4));
    }
    if rng.chance(1, 3) {
        cfg.mask = Some(rng.below(8));
    }
    if rng.chance(1, 4) {
        cfg.version = Some(1 + rng.below(40));
    }
    let out = adapter::build(&cfg);
    let mut h = outcome_digest(&out);
    if let Outcome::Ok(q) = &out {
        match rng.below(4) {
            0 => h ^= fnv(q.to_str().as_bytes()),
            1 => {
                let spec = render::random_svg_spec(&mut rng, q.size, true);
                h ^= fnv(adapter::guarded(|| spec.svg_builder().to_str(q)).unwrap_or_default().as_bytes());
            }
            2 if q.size <= 45 => {
                let mut spec = Spec::default();
                spec.layers.push((rng.below(6), None));
                spec.fit_width = Some(100 + rng.below(100) as u32);
                h ^= fnv(&adapter::guarded(|| spec.image_builder().to_bytes(q).unwrap_or_default()).unwrap_or_default());
            }
            _ => {}
        }
    }
    h
}

fn schedule(ctx: &Ctx, st: &mut Stats, seed: u64, threads: usize, njobs: usize, j: &J) {
    let seeds: Vec<u64> = (0..njobs).map(|i| mix(seed, i as u64)).collect();
    // single-threaded reference on a fresh thread
    let caps = &ctx.caps;
    let reference: Vec<u64> = pool::on_fresh_thread(|| seeds.iter().map(|&s| schedule_unit(s, caps)).collect());
    let mismatches = AtomicUsize::new(0);
    let first_bad = std::sync::Mutex::new(None::<(usize, usize)>);
    let compared = AtomicUsize::new(0);
    std::thread::scope(|s| {
        for t in 0..threads {
            let seeds = &seeds;
            let reference = &reference;
            let mismatches = &mismatches;
            let first_bad = &first_bad;
            let compared = &compared;
            std::thread::Builder::new()
                .stack_size(pool::STACK)
                .spawn_scoped(s, move || {
                    let mut order: Vec<usize> = (0..seeds.len()).collect();
                    let mut rng = Rng::new(mix(seed, 0x5c4ed + t as u64));
                    rng.shuffle(&mut order);
                    for &i in &order {
                        let d = schedule_unit(seeds[i], caps);
                        if d != reference[i] {
                            mismatches.fetch_add(1, Ordering::Relaxed);
                            first_bad.lock().unwrap().get_or_insert((t, i));
                        }
                        compared.fetch_add(1, Ordering::Relaxed);
                        if rng.chance(1, 3) {
                            std::thread::yield_now();
                        }
                    }
                })
                .expect("spawn");
        }
    });
    st.eval();
    st.count("schedule_digests_compared", compared.load(Ordering::Relaxed) as u64);
    st.count("schedules_run", 1);
    st.reach("thread_counts", threads as u64);
    st.distinct(mix(seed, threads as u64));
    if mismatches.load(Ordering::Relaxed) > 0 {
        let (t, i) = first_bad.lock().unwrap().unwrap();
        st.violation(
            ID,
            "schedule-dependence",
            format!("{} of {} results computed on {threads} concurrent threads differ from the single-threaded reference (first: thread {t}, job {i})", mismatches.load(Ordering::Relaxed), compared.load(Ordering::Relaxed)),
            j.to_json(),
        );
    }
}

/// child side of the cold-start family: `vcheck c14-child <seed> <threads> <njobs>` prints "D <i> <digest>" lines
pub fn child_main(seed: u64, threads: usize, njobs: usize) -> i32 {
    let caps = oracle::tables::Caps::new();
    let seeds: Vec<u64> = (0..njobs).map(|i| mix(seed, i as u64)).collect();
    let barrier = std::sync::Barrier::new(threads);
    let out = std::sync::Mutex::new(Vec::<(usize, usize, u64)>::new());
    std::thread::scope(|s| {
        for t in 0..threads {
            let (seeds, caps, barrier, out) = (&seeds, &caps, &barrier, &out);
            std::thread::Builder::new()
                .stack_size(pool::STACK)
                .spawn_scoped(s, move || {
                    let mut order: Vec<usize> = (0..seeds.len()).collect();
                    let mut rng = Rng::new(mix(seed, 0xc01d + t as u64));
                    rng.shuffle(&mut order);
                    barrier.wait();
                    let mut mine = Vec::with_capacity(order.len());
                    for &i in &order {
                        mine.push((t, i, schedule_unit(seeds[i], caps)));
                    }
                    out.lock().unwrap().extend(mine);
                })
                .expect("spawn");
        }
    });
    for (t, i, d) in out.into_inner().unwrap() {
        println!("D {t} {i} {d:016x}");
    }
    println!("END");
    0
}

fn cold_start(ctx: &Ctx, st: &mut Stats, seed: u64, threads: usize, njobs: usize, j: &J) {
    let seeds: Vec<u64> = (0..njobs).map(|i| mix(seed, i as u64)).collect();
    let caps = &ctx.caps;
    let reference: Vec<u64> = pool::on_fresh_thread(|| seeds.iter().map(|&s| schedule_unit(s, caps)).collect());
    st.eval();
    let exe = match std::env::current_exe() {
        Ok(e) => e,
        Err(e) => {
            st.inconclusive(format!("cold start: current_exe: {e}"));
            return;
        }
    };
    // every second cold start also happens in ANOTHER process environment than the reference's (cleared and refilled
    // from a profile of commonly consulted variables - locale, terminal, time zone ... -, every other variable
    // answered as if set, unwritable standard error, skewed wall clock): "same input, same options" must give the same
    // symbol, SVG, PNG and terminal text in any process
    let hostile = seed & 1 == 1;
    let which = (seed >> 1) as usize % 4;
    let mut cmd = std::process::Command::new(exe);
    cmd.args(["c14-child", &seed.to_string(), &threads.to_string(), &njobs.to_string()]);
    let spy_log = std::env::var_os("VCHECK_TARGET_DIR").map(std::path::PathBuf::from).unwrap_or_else(|| ctx.root.join("harness/target")).join("scratch").join(format!("c14-envspy-{}-{seed:x}.log", std::process::id()));
    if hostile {
        if let Some(d) = spy_log.parent() {
            let _ = std::fs::create_dir_all(d);
        }
        // ... and in a working directory where files named like the workloads' relative image references exist
        let cwd = spy_log.with_extension("cwd");
        crate::relstage::decoy_working_directory(&cwd);
        cmd.current_dir(&cwd);
        if !crate::relstage::hostile_environment(&mut cmd, &ctx.root, which, ["1", "C", "yes", "POSIX"][(seed >> 3) as usize % 4], &spy_log, false) {
            st.inconclusive("cold start: harness/shim/envspy.so is missing (run ./setup.sh)".to_string());
        }
    }
    let o = match cmd.output() {
        Ok(o) => o,
        Err(e) => {
            st.inconclusive(format!("cold start: cannot spawn child: {e}"));
            return;
        }
    };
    let text = String::from_utf8_lossy(&o.stdout);
    if !o.status.success() || !text.contains("END") {
        st.violation(ID, "cold-start-crash", format!("a fresh process with {threads} threads racing into their first calls ended with {} ({})", o.status, String::from_utf8_lossy(&o.stderr).lines().last().unwrap_or("")), j.to_json());
        return;
    }
    let (mut compared, mut bad) = (0u64, None);
    for l in text.lines() {
        let mut it = l.split_whitespace();
        if it.next() != Some("D") {
            continue;
        }
        let (t, i, d) = (it.next().and_then(|x| x.parse::<usize>().ok()), it.next().and_then(|x| x.parse::<usize>().ok()), it.next().and_then(|x| u64::from_str_radix(x, 16).ok()));
        if let (Some(t), Some(i), Some(d)) = (t, i, d) {
            compared += 1;
            if reference.get(i) != Some(&d) && bad.is_none() {
                bad = Some((t, i));
            }
        }
    }
    if compared != (threads * njobs) as u64 {
        st.inconclusive(format!("cold start: child reported {compared} digests, expected {}", threads * njobs));
        return;
    }
    st.count("cold_start_digests_compared", compared);
    if hostile {
        st.count("cold_starts_in_another_process_environment", 1);
    }
    let _ = std::fs::remove_file(&spy_log);
    let _ = std::fs::remove_dir_all(spy_log.with_extension("cwd"));
    st.count("cold_start_processes", 1);
    st.distinct(mix(seed ^ 0xc01d, threads as u64));
    if let Some((t, i)) = bad {
        let env_note = if hostile { format!(" (the child's process environment differed from the reference's: profile {which}: {}; names consulted besides the harness's own: {:?})", crate::relstage::describe_profile(which), std::fs::read_to_string(&spy_log).unwrap_or_default().lines().filter(|l| !["VERIF_", "VCHECK_", "RUST_", "ENVSPY_"].iter().any(|p| l.split(' ').nth(1).unwrap_or("").starts_with(p))).map(|l| l.to_string()).collect::<Vec<_>>()) } else { String::new() };
        st.violation(ID, if hostile { "process-environment-dependence" } else { "cold-start-race" }, format!("in a fresh process whose {threads} threads made their first calls at the same moment, thread {t} computed a different result for job {i} than the single-threaded reference{env_note}"), j.to_json());
    }
}

pub fn observe(ctx: &Ctx, st: &mut Stats, j: &J) {
    match *j {
        J::ColdStart { seed, threads, njobs } => cold_start(ctx, st, seed, threads, njobs, j),
        J::BuildHistory { seed } => build_history(ctx, st, seed, j),
        J::RenderHistory { seed, png } => render_history(ctx, st, seed, png, j),
        J::Schedule { seed, threads, njobs } => schedule(ctx, st, seed, threads, njobs, j),
    }
}

pub fn run(ctx: &Ctx) -> Report {
    let jobs = jobs(ctx);
    let mut st = pool::run(&jobs, ctx.remaining(), |st, job, _| observe(ctx, st, job));
    // schedules use the whole machine themselves: run them one after the other
    let reps = ctx.tier.pick(1, ctx.scale(20));
    for rep in 0..reps {
        for &threads in &[1usize, 2, 4, 8, 16] {
            let j = J::Schedule { seed: mix(ctx.seed, (rep * 100 + threads) as u64), threads, njobs: ctx.tier.pick(700, 1000) };
            let mut s = Stats::new();
            observe(ctx, &mut s, &j);
            st.merge(s);
        }
    }
    // cold starts: fresh processes, all threads released from a barrier into their first calls
    for rep in 0..ctx.tier.pick(24, ctx.scale(400)) {
        let j = J::ColdStart { seed: mix(ctx.seed, 0xc01d0000 + rep as u64), threads: [16usize, 8, 4, 2][rep % 4], njobs: 12 };
        let mut s = Stats::new();
        observe(ctx, &mut s, &j);
        st.merge(s);
    }
    let mut extra = vec![];
    if ctx.tier == Tier::Thorough {
        sanit::tsan_stage(ctx, 3).apply(ID, &mut st, &mut extra);
        sanit::miri_stage_with(ctx, "c14", 16, ctx.scale(48), 3).apply(ID, &mut st, &mut extra);
    }
    let mut rep = Report::new(
        st,
        "jobs = (a) builder call histories: 1..14 random calls over mode/ecl/version/mask setters (repeats, any order; last value wins in the model), build() interleaved and repeated up to 5 times, unrelated builds (v1..40) in between, A-B-A sequences; every build() result (all 177*177 raw module bytes + fields) is compared with a FRESH builder given only the final option values and executed on a FRESH thread; (b) renderer call histories: scalar setters in random order preceded by decoy calls with other values, shape calls woven in order; SVG / terminal / PNG output of the used builder, rendered twice, must equal a fresh builder with the final values, and the QRCode digest must be unchanged; (c) schedules: 1, 2, 4, 8, 16 threads each run their own shuffle of one job list (build + terminal/SVG/PNG) with yields, every digest must equal the single-threaded reference; (d) cold starts: fresh child processes whose 2..16 threads are released from a barrier into their very first calls of the crate (24 processes quick, 400 thorough), digests compared with the parent's single-threaded reference; thorough adds ThreadSanitizer (16 threads, std instrumented) and multi-threaded Miri runs under 16 scheduler seeds; distinct key = (history, input) / (seed, thread count); every history non-trivial",
    );
    rep.expected_sets = vec![("thread_counts", 5), ("renderer_setters_used", 12)];
    rep.required_sets = vec![("thread_counts", 5), ("renderer_setters_used", 12)];
    rep.min_evaluations = 3000;
    rep.extra = extra;
    rep.assumptions = vec!["schedules are those the OS scheduler (and, in thorough, TSan / Miri's randomised scheduler) actually produced; hidden state behind an interleaving that never occurred is not decided".into()];
    rep
}

pub fn replay(ctx: &Ctx, job: &Value) -> Option<Stats> {
    let j = J::from_json(job)?;
    let mut st = Stats::new();
    observe(ctx, &mut st, &j);
    Some(st)
}
