//! C08 — masking applies exactly the ISO pattern, only to the encoding region.

use crate::adapter::{self, Outcome};
use crate::fw::{flag, Ctx, Report};
use crate::job::{Job, GEN_COUNT};
use crate::pool;
use crate::stats::Stats;
use crate::symbol;
use oracle::decode::{self, Matrix};
use oracle::layout::{mask_bit, region_map, Region};
use oracle::rng::mix;
use oracle::bch;
use serde_json::json;

pub const ID: &str = "C08";
pub const FAMS: [&str; 1] = ["mask-group"];

pub fn jobs(ctx: &Ctx) -> Vec<Job> {
    let caps = &ctx.caps;
    let mut jobs = Vec::new();
    let mut k = 0usize;
    let levels_per_version = 4;
    let payloads = ctx.tier.pick(4, ctx.scale(250));
    for v in 1..=40usize {
        for li in 0..levels_per_version {
            let level = (v + li * if levels_per_version == 2 { 2 } else { 1 }) % 4;
            for p in 0..=payloads {
                k += 1;
                let class = k % 3;
                let cap = caps.cap(v, level, class);
                jobs.push(Job {
                    fam: FAMS[0],
                    class,
                    mode: Some(class),
                    level: Some(level),
                    version: Some(v),
                    mask: None,
                    len: if p == 0 { cap } else if p == 1 { 0 } else { (mix(ctx.seed, k as u64) as usize) % (cap + 1) },
                    gen: k % GEN_COUNT,
                    seed: mix(ctx.seed, k as u64),
                    ..Default::default()
                });
            }
        }
    }
    jobs
}

pub fn observe(ctx: &Ctx, st: &mut Stats, job: &Job) {
    let base = job.config();
    let exp = match symbol::expect(&base, &ctx.caps) {
        Ok(e) => e,
        Err(why) => {
            st.inconclusive(format!("workload bug ({why}): {}", base.describe()));
            return;
        }
    };
    let v = exp.version;
    let map = region_map(v);
    let n = map.size;
    // the masking function itself is public (`fast_qr::datamasking::mask`, doc-hidden): half of the groups first
    // call it directly, on this thread, on an all-data grid of the same size (as the repository's own mask tests do
    // with 10x10 grids): every module of the grid must then equal the ISO condition, nothing beyond size^2 may
    // change, and applying the same mask again must restore the grid. The builds below follow on the same thread.
    if job.seed & 1 == 0 {
        let k = (job.seed >> 8) as usize % 8;
        let probe = adapter::guarded(|| {
            let mut g = fast_qr::QRCode::default(n);
            fast_qr::datamasking::mask(&mut g, adapter::MASKS[k]);
            let once: Vec<u8> = g.data.iter().map(|m| m.0).collect();
            fast_qr::datamasking::mask(&mut g, adapter::MASKS[k]);
            let twice_clean = g.data.iter().all(|m| m.0 == fast_qr::Module::data(fast_qr::Module::LIGHT).0);
            (once, twice_clean)
        });
        match probe {
            Err(p) => {
                flag(st, ID, ("direct-mask-panic".into(), format!("datamasking::mask on an all-data {n}x{n} grid panicked: {p}")), job, false);
                return;
            }
            Ok((once, twice_clean)) => {
                let light = fast_qr::Module::data(fast_qr::Module::LIGHT).0;
                let dark = fast_qr::Module::data(fast_qr::Module::DARK).0;
                for r in 0..n {
                    for c in 0..n {
                        let want = if mask_bit(k, r, c) { dark } else { light };
                        if once[r * n + c] != want {
                            flag(st, ID, ("direct-mask-pattern".into(), format!("mask {k} applied directly to an all-data {n}x{n} grid: module (row {r}, col {c}) is {:#04x}, the ISO condition gives {:#04x}", once[r * n + c], want)), job, false);
                            return;
                        }
                    }
                }
                if let Some(i) = once[n * n..].iter().position(|&b| b != light) {
                    flag(st, ID, ("direct-mask-tail".into(), format!("mask {k} applied directly to an all-data {n}x{n} grid changed backing element {} beyond size^2", n * n + i)), job, false);
                    return;
                }
                if !twice_clean {
                    flag(st, ID, ("direct-mask-not-involutive".into(), format!("mask {k} applied twice to an all-data {n}x{n} grid does not restore it")), job, false);
                    return;
                }
                st.count("direct_mask_calls_checked", 2);
            }
        }
    }
    let mut syms: Vec<Matrix> = Vec::with_capacity(8);
    let mut built: Vec<Box<fast_qr::QRCode>> = Vec::with_capacity(8);
    for mask in 0..8 {
        let mut cfg = base.clone();
        cfg.mask = Some(mask);
        st.eval();
        match adapter::build(&cfg) {
            Outcome::Ok(q) => {
                syms.push(adapter::matrix_of(&q));
                built.push(q);
            }
            other => {
                let j = Job { mask: Some(mask), ..job.clone() };
                flag(st, ID, ("no-symbol".into(), format!("a symbol exists (v{v}), crate returned {}", other.describe())), &j, false);
                return;
            }
        }
    }
    if syms.iter().any(|m| m.size != n) {
        flag(st, ID, ("size".into(), "forced-mask builds of one configuration differ in size".into()), job, false);
        return;
    }
    // the public masking function applied to a FINISHED symbol (built with mask a) with another pattern b: it is a
    // masking step like any other - the data/EC/remainder modules where condition b holds are inverted, every other
    // module (function patterns, both format copies, version information) keeps its value and its label, and a
    // second application restores the symbol
    {
        let a = (job.seed >> 4) as usize % 8;
        let b = (a + 1 + (job.seed >> 7) as usize % 7) % 8;
        let orig = built[a].clone();
        let probe = adapter::guarded(|| {
            let mut q = (*orig).clone();
            fast_qr::datamasking::mask(&mut q, adapter::MASKS[b]);
            let once = q.clone();
            fast_qr::datamasking::mask(&mut q, adapter::MASKS[b]);
            (once, q)
        });
        match probe {
            Err(p) => {
                flag(st, ID, ("direct-mask-panic".into(), format!("datamasking::mask({b}) on a finished version {v} symbol built with mask {a} panicked: {p}")), job, false);
                return;
            }
            Ok((once, twice)) => {
                for r in 0..n {
                    for c in 0..n {
                        let (o, m) = (orig.data[r * n + c], once.data[r * n + c]);
                        let want_flip = map.at(r, c) == Region::Data && mask_bit(b, r, c);
                        if (o.value() != m.value()) != want_flip || o.module_type() != m.module_type() {
                            flag(st, ID, ("direct-mask-on-symbol".into(), format!("datamasking::mask({b}) applied to a finished version {v} symbol built with mask {a}: {} module (row {r}, col {c}) {} (label {} -> {}); the ISO condition of mask {b} {} there", map.at(r, c).name(), if o.value() != m.value() { "changed" } else { "did not change" }, adapter::label_name(o.module_type()), adapter::label_name(m.module_type()), if mask_bit(b, r, c) { "holds" } else { "does not hold" })), job, false);
                            return;
                        }
                    }
                }
                if once.data[n * n..] != orig.data[n * n..] || adapter::digest(&twice) != adapter::digest(&orig) {
                    flag(st, ID, ("direct-mask-on-symbol-not-involutive".into(), format!("datamasking::mask({b}) applied twice to a finished version {v} symbol does not restore it (or touched the backing array beyond size^2)")), job, false);
                    return;
                }
                st.count("direct_mask_calls_on_finished_symbols_checked", 2);
            }
        }
    }
    // each symbol names its own mask in the format information
    let mut named = [0usize; 8];
    for (k, m) in syms.iter().enumerate() {
        let (f1, _) = decode::read_format_copies(m);
        let (_, mk, d) = bch::decode_format(f1);
        if d > 3 {
            flag(st, ID, ("format-unreadable".into(), format!("forced mask {k}: format information {f1:015b} unreadable")), &Job { mask: Some(k), ..job.clone() }, false);
            return;
        }
        named[k] = mk;
    }
    // pairwise: differences exactly where the ISO conditions disagree, data region only
    for a in 0..8 {
        for b in a + 1..8 {
            for r in 0..n {
                for c in 0..n {
                    let diff = syms[a].get(r, c) != syms[b].get(r, c);
                    match map.at(r, c) {
                        Region::Data => {
                            let want = mask_bit(a, r, c) != mask_bit(b, r, c);
                            if diff != want {
                                let second = symbol::second_opinion_agrees(&syms[a], exp.mode, v, exp.level, a, &base.input)
                                    && symbol::second_opinion_agrees(&syms[b], exp.mode, v, exp.level, b, &base.input);
                                flag(
                                    st,
                                    ID,
                                    ("mask-pair-mismatch".into(), format!(
                                        "masks {a} and {b}, version {v}: data module (row {r}, col {c}) {} between the two builds, ISO conditions {} there",
                                        if diff { "differs" } else { "is equal" },
                                        if want { "disagree" } else { "agree" }
                                    )),
                                    &Job { aux: [a as i64, b as i64, r as i64, c as i64], ..job.clone() },
                                    second,
                                );
                                return;
                            }
                        }
                        Region::Format => {}
                        reg => {
                            if diff {
                                flag(
                                    st,
                                    ID,
                                    ("function-module-masked".into(), format!("masks {a} and {b}, version {v}: {} module (row {r}, col {c}) differs between the two builds", reg.name())),
                                    &Job { aux: [a as i64, b as i64, r as i64, c as i64], ..job.clone() },
                                    false,
                                );
                                return;
                            }
                        }
                    }
                }
            }
            st.count("mask_pairs_compared", 1);
            st.reach("version_pair", (v * 64 + a * 8 + b) as u64);
        }
    }
    st.count("coordinates_compared", (28 * n * n) as u64);
    // un-masking each with the pattern it names gives one and the same matrix
    let um0 = symbol::unmasked(&syms[0], v, named[0]);
    for k in 1..8 {
        let um = symbol::unmasked(&syms[k], v, named[k]);
        for &(r, c) in &map.zigzag {
            if um.get(r, c) != um0.get(r, c) {
                flag(st, ID, ("unmask-differs".into(), format!("un-masking the forced-mask-{k} build with the mask its format information names ({}) differs from the mask-0 build un-masked with ({}) at (row {r}, col {c})", named[k], named[0])), &Job { mask: Some(k), ..job.clone() }, false);
                return;
            }
        }
    }
    st.count("unmask_equalities_checked", 7);
    // automatic build == forced build of the mask it reports
    st.eval();
    match adapter::build(&base) {
        Outcome::Ok(q) => {
            let mk = q.mask.map(adapter::mask_no).unwrap_or(99);
            if mk >= 8 {
                flag(st, ID, ("auto-mask-unreported".into(), "automatic build reports no mask".into()), job, false);
                return;
            }
            if adapter::matrix_of(&q) != syms[mk] {
                flag(st, ID, ("auto-vs-forced".into(), format!("automatic build reports mask {mk} but differs from the forced-mask-{mk} build")), job, false);
                return;
            }
            st.count("auto_vs_forced_compared", 1);
            st.reach("auto_masks_seen", mk as u64);
        }
        other => {
            flag(st, ID, ("no-symbol".into(), format!("automatic-mask build returned {}", other.describe())), job, false);
            return;
        }
    }
    st.reach("versions", v as u64);
    st.distinct(job.key(&base.input));
    st.sample(23, || json!({"options": base.describe(), "input": adapter::short_hex(&base.input), "pairs": 28, "side": n}));
}

pub fn run(ctx: &Ctx) -> Report {
    let jobs = jobs(ctx);
    let st = pool::run(&jobs, ctx.remaining(), |st, job, _| observe(ctx, st, job));
    let mut rep = Report::new(
        st,
        "(half of the groups start with a direct call of the public datamasking::mask on an all-data grid of the same size, checked against the ISO condition at every coordinate, before their builds run on the same thread) jobs = all 40 versions x levels (2 rotating in quick, 4 in thorough) x payloads {capacity-filling, empty, random}; each job builds the same input with the eight forced masks and automatically; all 28 pairs are compared at every coordinate (data modules must differ exactly where ISO Table 10 conditions disagree, non-format function modules never), the eight symbols un-masked by the pattern named in their own format information must coincide, and the automatic build must equal the forced build of the mask it reports; distinct key = (options, len, payload hash) per group; every group non-trivial",
    );
    rep.expected_sets = vec![("versions", 40), ("version_pair", 40 * 28), ("auto_masks_seen", 8)];
    rep.required_sets = vec![("versions", 40), ("version_pair", 40 * 28)];
    rep.min_evaluations = 700;
    rep
}

pub fn replay(ctx: &Ctx, job: &serde_json::Value) -> Option<Stats> {
    let mut job = Job::from_json(job, &FAMS)?;
    job.mask = None;
    let mut st = Stats::new();
    observe(ctx, &mut st, &job);
    Some(st)
}
