//! C07 — EC codewords are the true GF(256) polynomial remainder for any block content.
//! Driven through the guarded hook re-exports `verif_hooks::structure` (the real call site,
//! slicing of the 255-byte division buffer included) and `verif_hooks::get_polynomial`.

use crate::adapter::{self, LEVELS, VERSIONS};
use crate::fw::{Ctx, Report, Tier};
use crate::pool;
use crate::stats::Stats;
use oracle::decode::deinterleave;
use oracle::gf;
use oracle::rng::{mix, Rng};
use oracle::tables::{self, Layout};
use serde_json::{json, Value};
use std::collections::BTreeMap;

pub const ID: &str = "C07";

#[derive(Clone, Debug)]
pub enum J {
    /// single non-zero byte at position `pos` of block `block` of cell (v, level): all values in `values`
    Basis { v: usize, level: usize, block: usize, pos: usize },
    /// generator polynomial of a cell
    Generator { v: usize, level: usize },
    /// dense / structured array in a cell; kind: 0 random, 1 leading zero runs, 2 interior zero runs, 3 all 0xFF, 4 all zero, 5 sparse
    Dense { v: usize, level: usize, kind: usize, seed: u64 },
    /// linearity: structure(a) ^ structure(b) == structure(a ^ b)
    Linear { v: usize, level: usize, seed: u64 },
    /// two different data arrays with the same cheap fingerprint `hash` (collide.rs), divided one right after
    /// the other on the same thread in the same cell
    Collide { v: usize, level: usize, hash: usize, seed: u64 },
    /// one long run of calls on one thread, alternating between a few fixed arrays in small cells of different
    /// generator degree, with random probes in between: counters that wrap (generations, epochs), caches that are
    /// "validated" instead of cleared
    LongHistory { seed: u64, steps: usize },
    /// "EC codewords of built symbols": a symbol built through the public API (builder histories included) is read
    /// back codeword by codeword; every block's EC must be the remainder of that block's data for the generator degree
    /// Table 9 gives the (version, level) the symbol ANNOUNCES. kind: 0 random bytes, 1 crafted block shape, 2 digits
    Built { v: usize, level: usize, kind: usize, seed: u64 },
}

impl J {
    fn to_json(&self) -> Value {
        match self {
            J::Basis { v, level, block, pos } => json!({"fam": "basis", "v": v, "level": level, "block": block, "pos": pos}),
            J::Generator { v, level } => json!({"fam": "generator", "v": v, "level": level}),
            J::Dense { v, level, kind, seed } => json!({"fam": "dense", "v": v, "level": level, "kind": kind, "seed": seed.to_string()}),
            J::Linear { v, level, seed } => json!({"fam": "linear", "v": v, "level": level, "seed": seed.to_string()}),
            J::Collide { v, level, hash, seed } => json!({"fam": "collide", "v": v, "level": level, "hash": hash, "seed": seed.to_string()}),
            J::LongHistory { seed, steps } => json!({"fam": "long-history", "seed": seed.to_string(), "steps": steps}),
            J::Built { v, level, kind, seed } => json!({"fam": "built", "v": v, "level": level, "kind": kind, "seed": seed.to_string()}),
        }
    }
    fn from_json(j: &Value) -> Option<J> {
        let g = |k: &str| j.get(k).and_then(|x| x.as_u64()).map(|x| x as usize);
        let s = |k: &str| j.get(k).and_then(|x| x.as_str()).and_then(|x| x.parse::<u64>().ok());
        Some(match j.get("fam")?.as_str()? {
            "basis" => J::Basis { v: g("v")?, level: g("level")?, block: g("block")?, pos: g("pos")? },
            "generator" => J::Generator { v: g("v")?, level: g("level")? },
            "dense" => J::Dense { v: g("v")?, level: g("level")?, kind: g("kind")?, seed: s("seed")? },
            "linear" => J::Linear { v: g("v")?, level: g("level")?, seed: s("seed")? },
            "collide" => J::Collide { v: g("v")?, level: g("level")?, hash: g("hash")?, seed: s("seed")? },
            "long-history" => J::LongHistory { seed: s("seed")?, steps: g("steps")? },
            "built" => J::Built { v: g("v")?, level: g("level")?, kind: g("kind")?, seed: s("seed")? },
            _ => return None,
        })
    }
}

fn call_structure(data: &[u8], v: usize, level: usize) -> Result<Vec<u8>, String> {
    let d = data.to_vec();
    adapter::guarded(move || fast_qr::verif_hooks::structure(&d, LEVELS[level], VERSIONS[v - 1]).to_vec())
}

/// Compare one `structure` output with the oracle: data interleave, EC = true remainder.
fn check_output(out: &[u8], data: &[u8], lay: &Layout) -> Result<(), (String, String)> {
    if out.len() < lay.total {
        return Err(("output-short".into(), format!("{} < {}", out.len(), lay.total)));
    }
    let blocks = deinterleave(&out[..lay.total], lay);
    let mut off = 0;
    for (i, b) in blocks.iter().enumerate() {
        let want_data = &data[off..off + b.data.len()];
        off += b.data.len();
        if b.data != want_data {
            let p = (0..b.data.len()).find(|&p| b.data[p] != want_data[p]).unwrap();
            return Err((
                "interleave-data".into(),
                format!("block {i}: data codeword {p} read back through the ISO interleave order is {:#04x}, input had {:#04x}", b.data[p], want_data[p]),
            ));
        }
        let want = gf::rs_remainder(want_data, lay.ec_per_block);
        if b.ec != want {
            let p = (0..want.len()).find(|&p| b.ec[p] != want[p]).unwrap();
            return Err((
                "remainder-mismatch".into(),
                format!(
                    "block {i} (data length {}, ec {}): EC codeword {p} is {:#04x}, data(x)*x^{} mod g(x) gives {:#04x}",
                    want_data.len(),
                    lay.ec_per_block,
                    b.ec[p],
                    lay.ec_per_block,
                    want[p]
                ),
            ));
        }
    }
    Ok(())
}

fn values_for(_ctx: &Ctx, seed: u64) -> Vec<u8> {
    // all 255 non-zero values cost < 3 s on 16 workers, so both tiers exhaust the basis;
    // VERIF_C07_FEW=1 restores the reduced value set (debugging only)
    if std::env::var_os("VERIF_C07_FEW").is_none() {
        (1..=255u8).collect()
    } else {
        let mut v = vec![1u8, 2, 3, 0x1D, 0x80, 0xFF, 0x8E, 0x47];
        let mut rng = Rng::new(seed);
        while v.len() < 40 {
            let x = 1 + rng.below(255) as u8;
            if !v.contains(&x) {
                v.push(x);
            }
        }
        v
    }
}

pub fn jobs(ctx: &Ctx) -> Vec<J> {
    let mut jobs = Vec::new();
    // smallest cell for each distinct (block data length, ec degree) pair
    let mut pairs: BTreeMap<(usize, usize), (usize, usize, usize)> = BTreeMap::new();
    for v in 1..=40usize {
        for level in 0..4usize {
            let l = tables::layout(v, level);
            for b in 0..l.num_blocks {
                pairs.entry((l.block_data_len(b), l.ec_per_block)).or_insert((v, level, b));
            }
        }
    }
    for (&(len, _ec), &(v, level, block)) in &pairs {
        for pos in 0..len {
            jobs.push(J::Basis { v, level, block, pos });
        }
    }
    // additionally: the LAST block of every cell gets a sparse basis (block offsets of two-group layouts)
    for v in 1..=40usize {
        for level in 0..4usize {
            let l = tables::layout(v, level);
            let last = l.num_blocks - 1;
            for pos in [0, l.block_data_len(last) / 2, l.block_data_len(last) - 1] {
                jobs.push(J::Basis { v, level, block: last, pos });
            }
            if l.num_blocks > 1 {
                let mid = l.num_short.min(l.num_blocks - 1);
                jobs.push(J::Basis { v, level, block: mid, pos: l.block_data_len(mid) - 1 });
                if mid > 0 {
                    jobs.push(J::Basis { v, level, block: mid - 1, pos: l.block_data_len(mid - 1) - 1 });
                }
            }
            jobs.push(J::Generator { v, level });
        }
    }
    let dense = ctx.tier.pick(24, ctx.scale(6000));
    let mut k = 0u64;
    for v in 1..=40usize {
        for level in 0..4usize {
            for i in 0..dense {
                k += 1;
                jobs.push(J::Dense { v, level, kind: if i < 21 { i } else { 0 }, seed: mix(ctx.seed, k) });
            }
            for _ in 0..ctx.tier.pick(6, ctx.scale(240)) {
                k += 1;
                jobs.push(J::Linear { v, level, seed: mix(ctx.seed, k) });
            }
            // fingerprint collisions: every hash of the list in a rotating subset of cells (thorough: all cells)
            for h in 0..crate::collide::HASH_NAMES.len() {
                k += 1;
                if ctx.tier == Tier::Quick && ((v * 4 + level + h) % 5 != 0 || v > 12) {
                    continue;
                }
                jobs.push(J::Collide { v, level, hash: h, seed: mix(ctx.seed, k) });
            }
        }
    }
    // built symbols: every cell, several payloads, through the adapter (shuffled setter histories, builders that were
    // used before with another level / version / mask, carriers, transports)
    for v in 1..=40usize {
        for level in 0..4usize {
            for i in 0..ctx.tier.pick(6usize, ctx.scale(300)) {
                k += 1;
                jobs.push(J::Built { v, level, kind: i % 3, seed: mix(ctx.seed, k ^ 0xb017) });
            }
        }
    }
    // long single-thread histories (one per worker in the quick tier): more generator changes than a u8 counter holds
    // in every one of them, more than a u16 counter holds in the longest
    for i in 0..ctx.tier.pick(16usize, 64) {
        k += 1;
        let steps = if i == 0 { 70_000 } else if i % 4 == 1 { 20_000 } else { 3_000 };
        jobs.push(J::LongHistory { seed: mix(ctx.seed, k ^ 0x10e6), steps });
    }
    jobs
}

fn viol(st: &mut Stats, v: (String, String), j: &J, extra: String) {
    st.violation(ID, &v.0, format!("{} [{}]", v.1, extra), j.to_json());
}

pub fn observe(ctx: &Ctx, st: &mut Stats, j: &J) {
    match *j {
        J::Basis { v, level, block, pos } => {
            let lay = tables::layout(v, level);
            let off: usize = (0..block).map(|b| lay.block_data_len(b)).sum();
            let mut data = vec![0u8; lay.data_codewords];
            for b in values_for(ctx, (v * 4 + level) as u64 * 1000 + pos as u64 + ctx.seed) {
                data[off + pos] = b;
                st.eval();
                let out = match call_structure(&data, v, level) {
                    Ok(o) => o,
                    Err(p) => {
                        viol(st, ("structure-panic".into(), p), j, format!("value {b:#04x}"));
                        return;
                    }
                };
                if let Err(e) = check_output(&out, &data, &lay) {
                    viol(st, e, j, format!("single non-zero byte {b:#04x} at position {pos} of block {block}, version {v} level {}", tables::LEVEL_NAMES[level]));
                    return;
                }
                st.count("basis_vectors_checked", 1);
                st.distinct(mix((lay.block_data_len(block) * 64 + lay.ec_per_block) as u64, (pos * 256 + b as usize) as u64));
            }
            st.reach("blocklen_ec_pairs", (lay.block_data_len(block) * 64 + lay.ec_per_block) as u64);
            st.reach("degrees", lay.ec_per_block as u64);
            st.count("byte_positions_covered", 1);
            st.sample(701, || json!({"family": "basis", "version": v, "level": tables::LEVEL_NAMES[level], "block": block, "position": pos, "block_data_len": lay.block_data_len(block), "ec": lay.ec_per_block}));
        }
        J::Generator { v, level } => {
            st.eval();
            let want_deg = tables::ECC_PER_BLOCK[level][v - 1] as usize;
            let poly = match adapter::guarded(|| fast_qr::verif_hooks::get_polynomial(VERSIONS[v - 1], LEVELS[level]).to_vec()) {
                Ok(p) => p,
                Err(p) => {
                    viol(st, ("get-polynomial-panic".into(), p), j, String::new());
                    return;
                }
            };
            if poly.len() != want_deg + 1 {
                viol(st, ("generator-degree".into(), format!("generator for version {v} level {} has degree {}, ISO Table 9 prescribes {want_deg}", tables::LEVEL_NAMES[level], poly.len().saturating_sub(1))), j, String::new());
                return;
            }
            let g = gf::generator(want_deg);
            for i in 0..=want_deg {
                if gf::alpha_pow(poly[i] as usize) != g[i] {
                    viol(st, ("generator-coefficient".into(), format!("degree {want_deg}: coefficient {i} is alpha^{}, prod(x - alpha^i) has {:#04x} = alpha^{:?}", poly[i], g[i], gf::log(g[i]))), j, String::new());
                    return;
                }
            }
            st.count("generator_coefficients_checked", (want_deg + 1) as u64);
            st.reach("generator_cells", (v * 4 + level) as u64);
            st.distinct(mix(0x6e6, (v * 4 + level) as u64));
        }
        J::Dense { v, level, kind, seed } => {
            st.eval();
            let lay = tables::layout(v, level);
            let mut rng = Rng::new(seed);
            let n = lay.data_codewords;
            let mut data: Vec<u8> = (0..n).map(|_| rng.byte()).collect();
            match kind {
                1 => {
                    // leading zero run in every block
                    let mut off = 0;
                    for b in 0..lay.num_blocks {
                        let len = lay.block_data_len(b);
                        let z = 1 + rng.below(len);
                        for x in &mut data[off..off + z] {
                            *x = 0;
                        }
                        off += len;
                    }
                }
                2 => {
                    for _ in 0..(1 + n / 20) {
                        let s = rng.below(n);
                        let e = (s + 1 + rng.below(12)).min(n);
                        for x in &mut data[s..e] {
                            *x = 0;
                        }
                    }
                }
                3 => data.iter_mut().for_each(|x| *x = 0xFF),
                4 => data.iter_mut().for_each(|x| *x = 0),
                5 => data.iter_mut().for_each(|x| {
                    if !rng.chance(1, 9) {
                        *x = 0
                    }
                }),
                // prescribed per-block shapes: padding pattern in every block, padding pattern except one byte,
                // zero blocks after the first, one zero block in the middle, identical blocks, leading zeros
                6..=16 => {
                    data = crate::craft::data_codewords_for_shape(v, level, kind - 6, seed);
                    st.count("block_shape_arrays_checked", 1);
                    st.reach("block_shapes", (kind - 6) as u64);
                }
                // cancelling windows: k consecutive data bytes of every block are chosen so that they cancel the running
                // remainder (k leading coefficients in a row are zero during the division), at the END of the block
                // (17: k = 1..4, 18: k = 7..9, 19: k = ec-1 .. ec+1) or in its interior (20): long division that skips
                // zero coefficients several at a time has its boundary cases exactly here
                17..=20 => {
                    let ec = lay.ec_per_block;
                    let mut off = 0;
                    for b in 0..lay.num_blocks {
                        let len = lay.block_data_len(b);
                        let k = match kind {
                            17 => 1 + rng.below(4),
                            18 => 7 + rng.below(3),
                            19 => (ec + rng.below(3)).saturating_sub(1),
                            _ => 1 + rng.below(12),
                        }
                        .min(len - 1)
                        .max(1);
                        let start = if kind == 20 { rng.below(len - k) } else { len - k };
                        for i in 0..k {
                            // remainder of block[..start+i] * x^ec: its first byte is what the next coefficient meets
                            let rem = gf::rs_remainder(&data[off..off + start + i], ec);
                            data[off + start + i] = rem[0];
                        }
                        off += len;
                    }
                    st.count("cancelling_window_arrays_checked", 1);
                }
                _ => {}
            }
            let out = match call_structure(&data, v, level) {
                Ok(o) => o,
                Err(p) => {
                    viol(st, ("structure-panic".into(), p), j, String::new());
                    return;
                }
            };
            if let Err(e) = check_output(&out, &data, &lay) {
                viol(st, e, j, format!("dense array kind {kind}, version {v} level {}", tables::LEVEL_NAMES[level]));
                return;
            }
            st.count("dense_arrays_checked", 1);
            st.count("blocks_divided", lay.num_blocks as u64);
            st.reach("dense_cells", (v * 4 + level) as u64);
            st.reach("dense_kinds", kind as u64);
            st.distinct(mix(seed, kind as u64));
        }
        J::Collide { v, level, hash, seed } => {
            st.eval();
            let lay = tables::layout(v, level);
            let n = lay.data_codewords;
            let base: Vec<u8> = {
                let mut rng = Rng::new(seed);
                (0..n).map(|_| rng.byte()).collect()
            };
            // variants differ in up to 4 bytes spread over the array (first, middle, last region)
            let make = |i: u64| -> Vec<u8> {
                let mut a = base.clone();
                let m = oracle::rng::mix(seed ^ 0xc011, i);
                for (k, pos) in [0usize, n / 3, n / 2, n - 1].iter().enumerate() {
                    a[*pos] ^= (m >> (8 * k)) as u8;
                }
                a
            };
            let pair = match crate::collide::find_pair(hash, 1 << 18, make) {
                Some(p) => p,
                None => {
                    st.count("collision_searches_without_result", 1);
                    return;
                }
            };
            let (a, b) = (make(pair.0), make(pair.1));
            for (first, second) in [(&a, &b), (&b, &a)] {
                for d in [first, second] {
                    let out = match call_structure(d, v, level) {
                        Ok(o) => o,
                        Err(p) => {
                            viol(st, ("structure-panic".into(), p), j, String::new());
                            return;
                        }
                    };
                    if let Err(e) = check_output(&out, d, &lay) {
                        viol(st, e, j, format!("second of two arrays with the same {} fingerprint, divided right after the first on the same thread (version {v} level {})", crate::collide::HASH_NAMES[hash], tables::LEVEL_NAMES[level]));
                        return;
                    }
                }
            }
            st.count("fingerprint_collision_pairs_checked", 1);
            st.reach("collision_hashes", hash as u64);
            st.distinct(mix(0xc011de, seed));
            // the same inside ONE array: two blocks of equal length whose contents differ but share the fingerprint
            // (a call that recognises "a block it has already divided" by anything less than its content shows here)
            if lay.num_blocks >= 2 && lay.block_data_len(0) == lay.block_data_len(1) {
                let len = lay.block_data_len(0);
                let block_base: Vec<u8> = {
                    let mut rng = Rng::new(seed ^ 0xb10c);
                    (0..len).map(|_| rng.byte()).collect()
                };
                let make_block = |i: u64| -> Vec<u8> {
                    let mut a = block_base.clone();
                    let m = oracle::rng::mix(seed ^ 0xb10c, i);
                    for (k, pos) in [0usize, len / 3, len / 2, len - 1].iter().enumerate() {
                        a[*pos] ^= (m >> (8 * k)) as u8;
                    }
                    a
                };
                match crate::collide::find_pair(hash, 1 << 18, make_block) {
                    None => st.count("collision_searches_without_result", 1),
                    Some(p) => {
                        let (x, y) = (make_block(p.0), make_block(p.1));
                        for (first, second) in [(&x, &y), (&y, &x)] {
                            let mut d = base.clone();
                            d[..len].copy_from_slice(first);
                            d[len..2 * len].copy_from_slice(second);
                            // a third copy further back when the layout has room for it
                            if lay.num_blocks >= 3 && lay.block_data_len(2) == len {
                                d[2 * len..3 * len].copy_from_slice(first);
                            }
                            let out = match call_structure(&d, v, level) {
                                Ok(o) => o,
                                Err(p) => {
                                    viol(st, ("structure-panic".into(), p), j, String::new());
                                    return;
                                }
                            };
                            if let Err(e) = check_output(&out, &d, &lay) {
                                viol(st, e, j, format!("blocks 0 and 1 of ONE array differ but share their {} fingerprint (version {v} level {})", crate::collide::HASH_NAMES[hash], tables::LEVEL_NAMES[level]));
                                return;
                            }
                        }
                        st.count("fingerprint_colliding_blocks_inside_one_array_checked", 1);
                    }
                }
            }
        }
        J::Built { v, level, kind, seed } => {
            st.eval();
            let mut rng = Rng::new(seed);
            let lay = tables::layout(v, level);
            let (mode, input): (usize, Vec<u8>) = match kind {
                1 => (2, crate::craft::payload_for_shape(v, level, rng.below(crate::craft::CW_SHAPE_COUNT), seed)),
                2 => (0, {
                    let cap = ctx.caps.cap(v, level, 0);
                    (0..1 + rng.below(cap.max(1))).map(|_| b'0' + rng.below(10) as u8).collect()
                }),
                _ => (2, {
                    let cap = ctx.caps.cap(v, level, 2);
                    let n = if rng.chance(1, 2) { cap } else { 1 + rng.below(cap.max(1)) };
                    (0..n).map(|_| rng.byte()).collect()
                }),
            };
            if input.len() > ctx.caps.cap(v, level, mode) {
                st.inconclusive(format!("workload bug: built-symbol payload of {} bytes exceeds v{v} level {level}", input.len()));
                return;
            }
            let cfg = adapter::Config { input, mode: Some(mode), level: Some(level), version: Some(v), mask: if rng.chance(1, 3) { None } else { Some(rng.below(8)) } };
            let qr = match adapter::build(&cfg) {
                adapter::Outcome::Ok(q) => q,
                other => {
                    viol(st, ("no-symbol".into(), format!("crate returned {}", other.describe())), j, cfg.describe());
                    return;
                }
            };
            let m = adapter::matrix_of(&qr);
            let ro = match oracle::decode::read(&m) {
                Ok(r) => r,
                Err(e) => {
                    viol(st, ("read-failed".into(), e), j, cfg.describe());
                    return;
                }
            };
            if ro.version != v || ro.level != level {
                viol(st, ("announced-cell".into(), format!("the symbol announces version {} level {}, requested version {v} level {}", ro.version, tables::LEVEL_NAMES[ro.level], tables::LEVEL_NAMES[level])), j, cfg.describe());
                return;
            }
            for (i, b) in ro.blocks.iter().enumerate() {
                if b.ec.len() != lay.ec_per_block {
                    viol(st, ("generator-degree".into(), format!("block {i} carries {} EC codewords, Table 9 prescribes degree {}", b.ec.len(), lay.ec_per_block)), j, cfg.describe());
                    return;
                }
                let want = gf::rs_remainder(&b.data, lay.ec_per_block);
                if b.ec != want {
                    let p = (0..want.len()).find(|&p| b.ec[p] != want[p]).unwrap();
                    viol(st, ("built-symbol-remainder".into(), format!("block {i} of {} of a built symbol (data length {}, ec {}): EC codeword {p} is {:#04x}, data(x)*x^{} mod g(x) gives {:#04x}", ro.blocks.len(), b.data.len(), lay.ec_per_block, b.ec[p], lay.ec_per_block, want[p])), j, cfg.describe());
                    return;
                }
            }
            st.count("built_symbol_blocks_checked", ro.blocks.len() as u64);
            st.reach("built_cells", (v * 4 + level) as u64);
            st.distinct(mix(0xb017, seed));
        }
        J::LongHistory { seed, steps } => {
            // small cells with many different generator degrees: (version, level) -> 7, 10, 13, 17, 10, 16, 22, 28, 15, 26
            const CELLS: [(usize, usize); 10] = [(1, 0), (1, 1), (1, 2), (1, 3), (2, 0), (2, 1), (2, 2), (2, 3), (3, 0), (3, 1)];
            let mut rng = Rng::new(seed);
            let nfixed = 2 + rng.below(2);
            let fixed: Vec<(usize, usize, Vec<u8>)> = (0..nfixed)
                .map(|i| {
                    let (v, l) = CELLS[(rng.below(5) * 2 + i) % CELLS.len()];
                    let n = tables::layout(v, l).data_codewords;
                    // few distinct byte values: the fixed arrays exercise few table rows, the probes many
                    let a = rng.byte();
                    (v, l, (0..n).map(|j| if j % 3 == 0 { a } else { 0 }).collect())
                })
                .collect();
            let mut last_degree = 0usize;
            let mut changes = 0u64;
            for step in 0..steps {
                let probe = rng.chance(1, 10);
                let (v, l, data): (usize, usize, Vec<u8>) = if probe {
                    let (v, l) = CELLS[rng.below(CELLS.len())];
                    let n = tables::layout(v, l).data_codewords;
                    (v, l, (0..n).map(|_| rng.byte()).collect())
                } else {
                    fixed[step % nfixed].clone()
                };
                let lay = tables::layout(v, l);
                if lay.ec_per_block != last_degree {
                    changes += 1;
                    last_degree = lay.ec_per_block;
                }
                st.eval();
                let out = match call_structure(&data, v, l) {
                    Ok(o) => o,
                    Err(p) => {
                        viol(st, ("structure-panic".into(), p), j, format!("step {step} of a long history"));
                        return;
                    }
                };
                if let Err(e) = check_output(&out, &data, &lay) {
                    viol(st, e, j, format!("step {step} of {steps} calls on one thread ({changes} changes of generator degree so far; version {v} level {}, {})", tables::LEVEL_NAMES[l], if probe { "random probe" } else { "fixed array" }));
                    return;
                }
            }
            st.count("long_history_calls_checked", steps as u64);
            st.max("max_generator_changes_in_one_history", changes);
            st.distinct(mix(0x10e6, seed));
        }
        J::Linear { v, level, seed } => {
            st.eval();
            let lay = tables::layout(v, level);
            let mut rng = Rng::new(seed);
            let n = lay.data_codewords;
            let a: Vec<u8> = (0..n).map(|_| if rng.chance(1, 3) { rng.byte() } else { 0 }).collect();
            let b: Vec<u8> = (0..n).map(|_| if rng.chance(1, 3) { rng.byte() } else { 0 }).collect();
            let x: Vec<u8> = a.iter().zip(&b).map(|(p, q)| p ^ q).collect();
            let (oa, ob, ox) = match (call_structure(&a, v, level), call_structure(&b, v, level), call_structure(&x, v, level)) {
                (Ok(p), Ok(q), Ok(r)) => (p, q, r),
                _ => {
                    viol(st, ("structure-panic".into(), "panic in linearity probe".into()), j, String::new());
                    return;
                }
            };
            if let Some(i) = (0..lay.total).find(|&i| oa[i] ^ ob[i] != ox[i]) {
                viol(st, ("not-linear".into(), format!("structure(a)^structure(b) differs from structure(a^b) at codeword {i}")), j, String::new());
                return;
            }
            st.count("linear_combinations_checked", 1);
            st.distinct(mix(seed, 0x11ea));
        }
    }
}

pub fn run(ctx: &Ctx) -> Report {
    let jobs = jobs(ctx);
    let st = pool::run(&jobs, ctx.remaining(), |st, job, _| observe(ctx, st, job));
    let npairs = {
        let mut s = std::collections::BTreeSet::new();
        for v in 1..=40 {
            for l in 0..4 {
                let lay = tables::layout(v, l);
                for b in 0..lay.num_blocks {
                    s.insert((lay.block_data_len(b), lay.ec_per_block));
                }
            }
        }
        s.len()
    };
    let all_values = std::env::var_os("VERIF_C07_FEW").is_none();
    let mut rep = Report::new(
        st,
        &format!(
            "hooked call site polynomials::structure driven directly: for every distinct (block data length, generator degree) pair of Table 9 ({npairs} pairs, smallest cell that has it) a data array that is zero except ONE byte at EVERY position with {} values; + sparse basis in the last / group-boundary blocks of all 160 cells; + get_polynomial for all 160 cells compared coefficient by coefficient with prod(x - alpha^i) computed by shift-and-xor arithmetic; + dense arrays in all 160 cells (random, leading zero runs, interior zero runs, all 0xFF, all zero, sparse, crafted block shapes, windows of 1..ec+1 data bytes that cancel the running remainder at the end and inside every block); + linearity probes structure(a)^structure(b)==structure(a^b); + symbols BUILT through the public API in all 160 cells (random bytes, crafted block shapes, digits; builder histories, carriers and transports of the adapter): read back codeword by codeword, every block's EC must be the remainder of its data for the degree of the announced cell; oracle = table-free GF(256) long division; every output is de-interleaved by the oracle layout and compared in full (data order, EC of every block); distinct key = (pair, position, value) / (cell) / (array seed); every case non-trivial",
            if all_values { "ALL 255 non-zero" } else { "40 (8 fixed + 32 seeded) non-zero" }
        ),
    );
    rep.exhaustive = Some(all_values);
    rep.expected_sets = vec![("blocklen_ec_pairs", npairs), ("degrees", 13), ("generator_cells", 160), ("dense_cells", 160), ("dense_kinds", 21), ("built_cells", 160)];
    rep.required_sets = vec![("blocklen_ec_pairs", npairs), ("degrees", 13), ("generator_cells", 160), ("dense_cells", 160), ("dense_kinds", 21), ("built_cells", 160)];
    rep.min_evaluations = if all_values { 1_300_000 } else { 100_000 };
    rep.assumptions = vec![
        "exhaustive (when true) refers to the single-non-zero-byte basis: every position x every non-zero value for every (block length, degree) pair in use; general contents follow by GF(2)-linearity, which is additionally observed on sampled combinations, not assumed".into(),
        "hook: verif_hooks re-exports polynomials::structure and hardcode::get_polynomial unchanged".into(),
    ];
    rep
}

pub fn replay(ctx: &Ctx, job: &Value) -> Option<Stats> {
    let j = J::from_json(job)?;
    let mut st = Stats::new();
    observe(ctx, &mut st, &j);
    Some(st)
}
