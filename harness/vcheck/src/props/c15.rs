//! C15 — every module's public type label matches its ISO region.

use crate::adapter::{self, Outcome};
use crate::fw::{flag, Ctx, Report};
use crate::job::{Job, GEN_COUNT};
use crate::pool;
use crate::stats::Stats;
use crate::symbol;
#[cfg(feature = "render")]
use fast_qr::convert::svg::SvgBuilder;
#[cfg(feature = "render")]
use fast_qr::convert::{Builder, Shape};
use fast_qr::Module;
use oracle::rng::mix;
use serde_json::json;

pub const ID: &str = "C15";
pub const FAMS: [&str; 2] = ["cell", "callback"];

pub fn jobs(ctx: &Ctx) -> Vec<Job> {
    let caps = &ctx.caps;
    let mut jobs = Vec::new();
    let mut k = 0usize;
    let payloads = ctx.tier.pick(6, ctx.scale(300));
    for v in 1..=40usize {
        for level in 0..4usize {
            for mask in 0..8usize {
                for p in 0..payloads {
                    k += 1;
                    let class = k % 3;
                    let cap = caps.cap(v, level, class);
                    jobs.push(Job {
                        fam: FAMS[0],
                        class,
                        mode: Some(class),
                        level: Some(level),
                        version: Some(v),
                        mask: if p % 5 == 4 { None } else { Some(mask) },
                        len: if p == 0 { cap } else { (mix(ctx.seed, k as u64) as usize) % (cap + 1) },
                        gen: k % GEN_COUNT,
                        seed: mix(ctx.seed, k as u64),
                        ..Default::default()
                    });
                }
            }
        }
        k += 1;
        jobs.push(Job {
            fam: FAMS[1],
            class: 2,
            mode: Some(2),
            level: Some(k % 4),
            version: Some(v),
            mask: None,
            len: caps.cap(v, k % 4, 2) / 2,
            gen: 0,
            seed: mix(ctx.seed, k as u64),
            aux: [(k % 6) as i64, 0, 0, 0],
            ..Default::default()
        });
    }
    jobs
}

/// user callback: writes the raw module byte it was handed into the path string
#[cfg(feature = "render")]
fn spy(y: usize, x: usize, m: Module) -> String {
    format!("M{x},{y}h{}", m.0)
}

pub fn observe(ctx: &Ctx, st: &mut Stats, job: &Job) {
    let cfg = job.config();
    st.eval();
    let exp = match symbol::expect(&cfg, &ctx.caps) {
        Ok(e) => e,
        Err(why) => {
            st.inconclusive(format!("workload bug ({why}): {}", cfg.describe()));
            return;
        }
    };
    let qr = match adapter::build(&cfg) {
        Outcome::Ok(q) => q,
        other => {
            flag(st, ID, ("no-symbol".into(), format!("a symbol exists (v{}), crate returned {}", exp.version, other.describe())), job, false);
            return;
        }
    };
    match symbol::check_labels(&qr, exp.version) {
        Ok(n) => st.count("labels_compared", n),
        Err(v) => {
            flag(st, ID, v, job, false);
            return;
        }
    }
    // labels must not depend on payload / level / mask: one hash per version over the whole run
    let n = qr.size;
    let label_bytes: Vec<u8> = qr.data[..n * n].iter().map(|m| m.0 >> 1).collect();
    st.reach(&format!("label_maps_v{:02}", exp.version), oracle::rng::fnv(&label_bytes));
    st.reach("versions", exp.version as u64);
    if let Some(fm) = cfg.mask {
        st.reach("version_level_mask", ((exp.version * 4 + exp.level) * 8 + fm) as u64);
    }

    #[cfg(feature = "render")]
    if job.fam == FAMS[1] {
        let margin = job.aux[0] as usize;
        // one callback layer, a built-in layer + a callback layer, or two callback layers (every layer's callback must
        // be handed the real modules)
        let layers = job.seed % 3;
        let svg = match adapter::guarded(|| {
            let mut b = SvgBuilder::default();
            b.margin(margin);
            // every other render also embeds an image (default or explicit placement): callbacks are handed the symbol's
            // own modules whatever else the document contains
            if job.seed % 2 == 1 {
                b.image("logo.png".to_string());
                if job.seed % 4 == 3 {
                    b.image_size(5.0);
                    b.image_position(n as f64 / 2.0 + margin as f64, n as f64 / 3.0 + margin as f64);
                }
            }
            match layers {
                0 => {
                    b.shape(Shape::Command(spy));
                }
                1 => {
                    b.shape(Shape::Square);
                    b.shape(Shape::Command(spy));
                }
                _ => {
                    b.shape(Shape::Command(spy));
                    b.shape_color(Shape::Command(spy), [9u8, 9, 9]);
                }
            }
            b.to_str(&qr)
        }) {
            Ok(s) => s,
            Err(p) => {
                flag(st, ID, ("callback-panic".into(), p), job, false);
                return;
            }
        };
        // pull the path data out and compare what the callback saw with qr.data
        // (the document is parsed as XML: attribute order, quoting and white space are the crate's business)
        let doc = match crate::svgcheck::parse(&svg) {
            Ok(d) => d,
            Err(e) => {
                st.inconclusive(format!("callback spy: the SVG that carries the spy's output does not parse ({}: {}); labels handed to callbacks cannot be observed", e.0, e.1));
                return;
            }
        };
        let d_owned: String = doc.elems.iter().filter(|e| e.name == "path").filter_map(|e| e.attr("d")).collect::<Vec<_>>().join(" ");
        let d = d_owned.as_str();
        let mut seen = 0u64;
        for item in d.split('M').skip(1) {
            let (xy, raw) = match item.split_once('h') {
                Some(p) => p,
                None => continue,
            };
            let (x, y) = match xy.split_once(',') {
                Some(p) => p,
                None => continue,
            };
            let (x, y, raw): (usize, usize, u8) = match (x.trim().parse(), y.trim().parse(), raw.trim().parse()) {
                (Ok(a), Ok(b), Ok(c)) => (a, b, c),
                _ => continue,
            };
            if x < margin || y < margin || x - margin >= n || y - margin >= n {
                flag(st, ID, ("callback-coordinate".into(), format!("callback invoked for ({x},{y}) outside the symbol with margin {margin}")), job, false);
                return;
            }
            let want = qr.data[(y - margin) * n + (x - margin)].0;
            if raw != want {
                flag(st, ID, ("callback-label".into(), format!("callback at column {} row {} received module byte {raw:#04x}, QRCode.data holds {want:#04x}", x - margin, y - margin)), job, false);
                return;
            }
            seen += 1;
        }
        let dark = qr.data[..n * n].iter().filter(|m| m.value()).count() as u64 * if layers == 2 { 2 } else { 1 };
        st.reach("callback_layer_arrangements", layers);
        if seen == 0 && dark > 0 {
            // the observation channel is broken (nothing the spy wrote came back): not a verdict on the labels
            st.inconclusive(format!("callback spy: none of the {dark} dark modules came back through the path data; labels handed to callbacks cannot be observed"));
            return;
        }
        if seen != dark {
            // how many sub-paths a layer has is C12's claim, not C15's: recorded, not judged here
            st.count("callback_count_differs_from_dark_modules", 1);
            if std::env::var_os("VERIF_DEBUG_C15").is_some() {
                eprintln!("c15 spy: layers arrangement {layers}, seen {seen}, expected {dark}, margin {margin}, size {n}");
            }
        }
        st.count("callback_modules_compared", seen);
    }
    st.distinct(job.key(&cfg.input));
    st.sample(331, || json!({"options": cfg.describe(), "input": adapter::short_hex(&cfg.input), "labels": n * n}));
}

pub fn run(ctx: &Ctx) -> Report {
    let jobs = jobs(ctx);
    let mut st = pool::run(&jobs, ctx.remaining(), |st, job, i| {
        observe(ctx, st, job);
        // every fifth job is followed, on the same thread, by a sibling: same payload, one option changed
        if i % 5 == 0 {
            if let Some(sib) = job.sibling(&ctx.caps) {
                let before = st.violations.len();
                observe(ctx, st, &sib);
                st.count("sibling_builds_same_payload_other_option", 1);
                for v in &mut st.violations[before..] {
                    v.detail = format!("{} (sibling run: same payload as the job before it on this thread, one option changed; the fault may depend on that history)", v.detail);
                }
            }
        }
    });
    // payload/level/mask independence: exactly one label map per version
    for v in 1..=40 {
        let name = format!("label_maps_v{v:02}");
        let k = st.set_len(&name);
        if k > 1 {
            st.violation(ID, "labels-depend-on-input", format!("version {v}: {k} different label maps were observed across payloads/levels/masks"), json!({"fam": "aggregate", "version": v}));
        }
        st.sets.remove(&name);
        if k >= 1 {
            st.count("versions_with_single_label_map", (k == 1) as u64);
        }
    }
    let mut rep = Report::new(
        st,
        "jobs = every (version, level, forced mask) cell (1280, enumerated completely; every fifth payload with automatic mask) x payloads (capacity-filling + random lengths), + one Shape::Command callback render per version (every other one with an embedded image); the label of every coordinate is compared with the oracle's ISO region map (alignment modules lying on the timing row/column may carry either label), the number of Data labels with 8*codewords+remainder, one label map per version across the whole run, and the module byte handed to a user callback with QRCode.data; distinct key = (options, len, payload hash); every case non-trivial",
    );
    rep.exhaustive = Some(true);
    rep.expected_sets = vec![("versions", 40), ("version_level_mask", 1280)];
    rep.required_sets = vec![("versions", 40), ("version_level_mask", 1280)];
    rep.min_evaluations = 2560;
    rep.assumptions = vec!["exhaustive refers to the (version, level, mask) space; payloads are sampled".into()];
    rep
}

pub fn replay(ctx: &Ctx, job: &serde_json::Value) -> Option<Stats> {
    let job = Job::from_json(job, &FAMS)?;
    let mut st = Stats::new();
    observe(ctx, &mut st, &job);
    Some(st)
}
