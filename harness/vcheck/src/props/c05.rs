//! C05 — smallest sufficient version is chosen; over-capacity is an error, not a panic.

use crate::adapter::{self, Outcome};
use crate::fw::{flag, Ctx, Report, Tier};
use crate::job::{Job, GEN_RAMP, GEN_RANDOM};
use crate::pool;
use crate::stats::Stats;
use crate::symbol;
use oracle::rng::mix;
use serde_json::json;

pub const ID: &str = "C05";
pub const FAMS: [&str; 6] = ["auto-version-every-length", "forced-at-threshold", "far-beyond", "forced-every-version", "no-level-given", "magic-prefix-at-threshold"];

const MAX_LEN: usize = 7200;

/// valid UTF-8 with non-ASCII characters, exactly `len` bytes
fn utf8_of_len(len: usize, k: u64) -> Vec<u8> {
    let units: [&str; 4] = ["\u{e9}", "\u{65e5}", "\u{df}", "\u{4e2d}"];
    let mut s = String::with_capacity(len + 4);
    let mut i = k as usize;
    while s.len() + 3 <= len {
        s.push_str(units[i % 4]);
        i += 1;
    }
    while s.len() < len {
        s.push('a');
    }
    s.into_bytes()
}

pub fn jobs(ctx: &Ctx) -> Vec<Job> {
    let caps = &ctx.caps;
    let mut jobs = Vec::new();
    let mut k = 0u64;
    let mut mk = |fam, class: usize, mode: Option<usize>, level: usize, version: Option<usize>, len: usize, k: &mut u64| {
        *k += 1;
        Job {
            fam,
            class,
            mode,
            level: Some(level),
            version,
            mask: Some((*k % 8) as usize), // forced mask: skips the 8-candidate scoring, 5x cheaper, irrelevant to C05
            len,
            gen: if *k % 5 == 0 { GEN_RANDOM } else { GEN_RAMP },
            seed: mix(ctx.seed, *k),
            // byte-class payloads are, every seventh time, valid UTF-8 text with non-ASCII characters of exactly this
            // many bytes (two- and three-byte characters, padded with a letter): content a text layer might treat specially
            payload: if class == 2 && *k % 7 == 3 && len >= 2 { Some(utf8_of_len(len, *k)) } else { None },
            ..Default::default()
        }
    };
    for class in 0..3usize {
        for level in 0..4usize {
            // every length with automatic version; the mode is forced, and additionally left
            // automatic at every 8th length and around every threshold
            let mut near = vec![false; MAX_LEN + 3];
            for v in 1..=40 {
                let c = caps.cap(v, level, class);
                for d in 0..=4 {
                    if c + d >= 2 && c + d - 2 <= MAX_LEN {
                        near[c + d - 2] = true;
                    }
                }
            }
            // (the release-profile child stage takes every third length, rotating with the seed: the full sweep has
            // just been done by the parent with all assertions armed)
            let thin = crate::relstage::is_child();
            for len in 0..=MAX_LEN {
                if thin && !near[len] && (len as u64 + ctx.seed) % 3 != 0 {
                    continue;
                }
                jobs.push(mk(FAMS[0], class, Some(class), level, None, len, &mut k));
                if len % 8 == 0 || near[len] {
                    jobs.push(mk(FAMS[0], class, None, level, None, len, &mut k));
                }
            }
            // forced versions around every threshold
            for v in 1..=40usize {
                let c = caps.cap(v, level, class);
                for len in [c.saturating_sub(1), c, c + 1] {
                    let vmin = caps.vmin(level, class, len);
                    let mut fs = vec![1usize, 40, v];
                    if let Some(vm) = vmin {
                        fs.push(vm);
                        if vm > 1 {
                            fs.push(vm - 1);
                        }
                        if vm < 40 {
                            fs.push(vm + 1);
                        }
                    }
                    fs.sort();
                    fs.dedup();
                    for f in fs {
                        jobs.push(mk(FAMS[1], class, Some(class), level, Some(f), len, &mut k));
                    }
                }
            }
            for len in [10_000usize, 65_535, 65_536, 100_000, 1_000_000] {
                jobs.push(mk(FAMS[2], class, Some(class), level, None, len, &mut k));
                jobs.push(mk(FAMS[2], class, None, level, Some(40), len, &mut k));
                jobs.push(mk(FAMS[2], class, Some(class), level, Some(1), len, &mut k));
            }
            if level == oracle::tables::Q {
                // no level given: Q is in effect. Every threshold of Q +-2, every 16th length, and the whole
                // stretch from the version-40 capacity at Q up to beyond the one at L (where a build that
                // quietly lowers the level would still find room), automatic and forced version
                let mut lens: Vec<usize> = (0..=MAX_LEN).step_by(16).collect();
                for v in 1..=40 {
                    let c = caps.cap(v, level, class);
                    lens.extend(c.saturating_sub(2)..=c + 2);
                }
                let q40 = caps.cap(40, level, class);
                let l40 = caps.cap(40, oracle::tables::L, class);
                lens.extend((q40..=l40 + 3).step_by(ctx.tier.pick(7, 1)));
                for lv in 0..4 {
                    let c = caps.cap(40, lv, class);
                    lens.extend(c.saturating_sub(2)..=c + 2);
                }
                lens.sort();
                lens.dedup();
                for len in lens {
                    let mut j = mk(FAMS[4], class, if len % 2 == 0 { Some(class) } else { None }, level, if len % 3 == 0 { Some(40) } else { None }, len, &mut k);
                    j.level = None;
                    jobs.push(j);
                }
            }
            if ctx.tier == Tier::Thorough {
                let top = caps.cap(40, level, class);
                for len in 0..=top + 2 {
                    for f in 1..=40usize {
                        jobs.push(mk(FAMS[3], class, Some(class), level, Some(f), len, &mut k));
                    }
                }
            }
        }
    }
    // no level given (Q applies) with the version PINNED, at lengths that are capacities (-1, +0, +1) of levels H, M and
    // Q in the pinned version: the pinned version is used as given when Q fits, and is too small one character later;
    // whatever a build does with the room a pinned version leaves, it may not overflow it
    for class in 0..3usize {
        for v in 1..=40usize {
            let mut lens = Vec::new();
            for lv in [oracle::tables::H, oracle::tables::M, oracle::tables::Q] {
                let c = caps.cap(v, lv, class);
                lens.extend([c.saturating_sub(1), c, c + 1]);
            }
            lens.sort();
            lens.dedup();
            for len in lens {
                let mut j = mk(FAMS[4], class, if (len + v) % 2 == 0 { Some(class) } else { None }, oracle::tables::Q, Some(v), len, &mut k);
                j.level = None;
                jobs.push(j);
            }
        }
    }
    // content is not a dimension of the capacity rule - so payloads that BEGIN with something meaningful (byte order
    // marks, URL schemes, GS1/AIM escapes, magic numbers: the dictionary of job.rs) are put exactly at, and 1-3 bytes
    // beyond, capacity thresholds of their own class, with automatic version and with the version below / at the
    // smallest sufficient one forced: a constructor that drops, folds or re-classifies a prefix moves the threshold
    {
        let mut n = 0usize;
        for (pre_class, list) in [(2usize, crate::job::BYTE_PREFIXES), (1usize, crate::job::ALNUM_PREFIXES)] {
            for pre in list {
                for rep in 0..ctx.tier.pick(2usize, 12) {
                    n += 1;
                    let level = (n + rep) % 4;
                    let v = 1 + (n * 7 + rep * 11) % if rep == 0 { 9 } else { 40 };
                    let filler_span = if pre_class == 1 { 45 } else { 256 };
                    for d in 0..4usize {
                        let mut p = pre.to_vec();
                        let class0 = oracle::tables::classify(&p).max(pre_class);
                        let target = caps.cap(v, level, class0) + d;
                        if target < p.len() + 1 {
                            continue;
                        }
                        let mut x = mix(ctx.seed, (n * 4 + d) as u64);
                        while p.len() < target {
                            x = mix(x, 1);
                            p.push(crate::job::alphabet(pre_class, x as usize % filler_span));
                        }
                        let class = oracle::tables::classify(&p);
                        for (mode, version) in [(None, None), (Some(class), None), (Some(class), Some(v)), (None, Some((v + 1).min(40)))] {
                            let mut j = mk(FAMS[5], class, mode, level, version, p.len(), &mut k);
                            j.payload = Some(p.clone());
                            jobs.push(j);
                        }
                    }
                }
            }
        }
    }
    jobs
}

/// The property names the two errors by what they SAY ("specified version too small", "data too big"). Only an
/// unmistakable swap is judged (wording is the crate's business): the text printed for the version error talks about
/// data being too big / large and not about anything being too small / low, or the other way round.
fn error_texts_swapped(out: &Outcome) -> bool {
    let (d, g) = match adapter::last_error_text() {
        Some(t) => t,
        None => return false,
    };
    let looks_big = |t: &str| {
        let t = t.to_lowercase();
        (t.contains("too big") || t.contains("too large")) && !(t.contains("too low") || t.contains("too small"))
    };
    let looks_small = |t: &str| {
        let t = t.to_lowercase();
        (t.contains("too low") || t.contains("too small")) && !(t.contains("too big") || t.contains("too large"))
    };
    match out {
        Outcome::VersionTooSmall => looks_big(&d) || looks_big(&g),
        Outcome::TooBig => looks_small(&d) || looks_small(&g),
        _ => false,
    }
}

pub fn observe(ctx: &Ctx, st: &mut Stats, job: &Job, idx: usize) {
    let cfg = job.config();
    st.eval();
    let want = symbol::expect(&cfg, &ctx.caps);
    let out = adapter::build(&cfg);
    // "the level in effect": the one given, or Q when the caller gives none
    let level = cfg.level.unwrap_or(oracle::tables::Q);
    if cfg.level.is_none() {
        st.count("default_level_executions", 1);
    }
    let mode = cfg.mode.unwrap_or(job.class);
    st.reach("mode_level", (job.class * 4 + level) as u64);
    match (&want, &out) {
        (Err("too-big"), Outcome::TooBig) | (Err("version-too-small"), Outcome::VersionTooSmall) if error_texts_swapped(&out) => {
            let (d, g) = adapter::last_error_text().unwrap_or_default();
            flag(st, ID, ("error-message-of-the-other-error".into(), format!("the right error variant came back ({}), but what it prints is the message of the OTHER error: Display {d:?}, Debug {g:?}", out.kind())), job, false);
        }
        (Err("too-big"), Outcome::TooBig) => {
            st.count("too_big_errors_observed", 1);
            st.distinct(mix(0x70b1, (job.class * 4 + level) as u64 * 2_000_003 + cfg.input.len() as u64));
        }
        (Err("version-too-small"), Outcome::VersionTooSmall) => {
            st.count("version_too_small_errors_observed", 1);
            st.distinct(mix(0x5a11, ((job.class * 4 + level) * 41 + cfg.version.unwrap()) as u64 * 2_000_003 + cfg.input.len() as u64));
        }
        (Ok(exp), Outcome::Ok(qr)) => {
            let got = qr.version.map(adapter::version_no).unwrap_or(0);
            let by_size = if qr.size >= 21 && (qr.size - 17) % 4 == 0 { (qr.size - 17) / 4 } else { 0 };
            if got != exp.version || by_size != exp.version {
                let kind = if cfg.version.is_some() { "forced-version-not-used" } else if got > exp.version { "version-wasted" } else { "version-too-small-chosen" };
                flag(
                    st,
                    ID,
                    (kind.into(), format!(
                        "{} characters in {} at level {}: smallest sufficient version is {}, {} -> symbol has version field {got}, side {} (= version {by_size})",
                        cfg.input.len(), oracle::tables::MODE_NAMES[mode], oracle::tables::LEVEL_NAMES[level], exp.vmin,
                        cfg.version.map_or("no version forced".to_string(), |f| format!("version {f} forced")), qr.size
                    )),
                    job,
                    false,
                );
                return;
            }
            st.count("symbols_built", 1);
            st.reach("versions_chosen", (job.class * 4 + level) as u64 * 64 + got as u64);
            if cfg.version.is_none() {
                st.count("auto_versions_confirmed", 1);
            } else {
                st.count("forced_versions_confirmed", 1);
            }
            st.distinct(mix(0x0c05, ((job.class * 4 + level) * 41 + cfg.version.unwrap_or(0)) as u64 * 2_000_003 + cfg.input.len() as u64));
            // the data must not overflow its codewords: full reference decode on a subset
            let at_threshold = cfg.input.len() == ctx.caps.cap(exp.version, exp.level, exp.mode) || job.fam == FAMS[1];
            if at_threshold || idx % ctx.tier.pick(16, 23) == 0 {
                let m = adapter::matrix_of(qr);
                if let Err(v) = symbol::check_roundtrip(&m, &cfg.input) {
                    flag(st, ID, (format!("overflowing-data/{}", v.0), v.1), job, false);
                    return;
                }
                st.count("round_trips_checked", 1);
            }
            st.sample(9973, || json!({"len": cfg.input.len(), "options": cfg.describe(), "outcome": format!("Ok(version {got})"), "vmin": exp.vmin}));
        }
        (_, Outcome::Panic(msg)) => {
            flag(st, ID, ("panic".into(), format!("build panicked: {msg}")), job, false);
        }
        (want, out) => {
            let w = match want {
                Ok(e) => format!("Ok(version {})", e.version),
                Err("too-big") => "Err(EncodedData) (beyond version 40)".to_string(),
                Err("version-too-small") => format!("Err(SpecifiedVersion) (smallest sufficient version is {:?})", ctx.caps.vmin(level, mode, cfg.input.len())),
                Err(o) => o.to_string(),
            };
            flag(
                st,
                ID,
                ("wrong-outcome".into(), format!("{} characters in {} at level {}: expected {w}, crate returned {}", cfg.input.len(), oracle::tables::MODE_NAMES[mode], oracle::tables::LEVEL_NAMES[level], out.describe())),
                job,
                false,
            );
        }
    }
}

pub fn run(ctx: &Ctx) -> Report {
    let jobs = jobs(ctx);
    let st = pool::run(&jobs, ctx.remaining(), |st, job, i| observe(ctx, st, job, i));
    let thorough = ctx.tier == Tier::Thorough;
    let mut rep = Report::new(
        st,
        &format!(
            "payloads that begin with a dictionary prefix (byte order marks, URL schemes, escapes, magic numbers) sit exactly at and 1-3 bytes beyond capacity thresholds of their own class, automatic and forced version; jobs = EVERY length 0..={MAX_LEN} x 3 modes x 4 levels with automatic version (mode forced; additionally automatic mode at every 8th length and within +-2 of all 480 thresholds), forced versions {{1, vmin-1, vmin, vmin+1, v, 40}} at all 480 thresholds +-1, lengths 10^4, 65535, 65536, 10^5, 10^6, builds with NO level given (Q in effect) at every Q threshold +-2, every 16th length and the stretch from the version-40 capacity at Q to beyond the one at L{}; expected outcome from the oracle's capacity arithmetic (4 + count bits + payload bits <= 8 x data codewords, Table 9 derived), observed outcome must be Ok with exactly that version / Err(SpecifiedVersion) / Err(EncodedData), never a panic (overflow checks on); capacity-filling and threshold symbols plus every 16th build are fully reference-decoded; distinct key = (mode, level, forced version, len); non-trivial = every case (each is one point of the property's quantifier)",
            if thorough { "; thorough: EVERY forced version 1..40 for EVERY length 0..=cap(40)+2" } else { "" }
        ),
    );
    rep.exhaustive = Some(true);
    rep.expected_sets = vec![("mode_level", 12), ("versions_chosen", 480)];
    rep.required_sets = vec![("mode_level", 12), ("versions_chosen", 480)];
    rep.min_evaluations = if crate::relstage::is_child() { 25_000 } else { 86_412 };
    rep.assumptions = vec![
        "exhaustive refers to (length 0..=7200 x mode x level) with automatic version (and x forced version in the thorough tier); payload content is class-representative (ramp / random), not enumerated".into(),
        "mask is forced in this workload to avoid 8x scoring cost; version selection happens before masking".into(),
    ];
    rep
}

pub fn replay(ctx: &Ctx, job: &serde_json::Value) -> Option<Stats> {
    let job = Job::from_json(job, &FAMS)?;
    let mut st = Stats::new();
    observe(ctx, &mut st, &job, 0);
    Some(st)
}
