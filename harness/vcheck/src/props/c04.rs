//! C04 — format/version information and reported parameters tell the truth.

use crate::adapter::{self, Outcome};
use crate::cells::native_range;
use crate::fw::{flag, Ctx, Report};
use crate::job::{Job, GEN_COUNT};
use crate::pool;
use crate::stats::Stats;
use crate::symbol;
use oracle::decode;
use oracle::rng::mix;
use oracle::{bch, tables};
use serde_json::json;

pub const ID: &str = "C04";
pub const FAMS: [&str; 6] = ["cell", "auto-everything", "no-level-beyond-q", "option-walk", "cleanest-symbol-search", "forced-mode-outside-alphabet"];

pub fn jobs(ctx: &Ctx) -> Vec<Job> {
    let caps = &ctx.caps;
    let mut jobs = Vec::new();
    let mut k = 0usize;
    let payloads = ctx.tier.pick(6, ctx.scale(400));
    for v in 1..=40usize {
        for level in 0..4usize {
            for mask in 0..8usize {
                for p in 0..payloads {
                    k += 1;
                    // which options are forced: bit0 mode, bit1 version, bit2 mask, bit3 level.
                    // mask and level stay forced in the base sweep so that the cell is the one
                    // enumerated; the other combinations rotate.
                    let combo = k % 16;
                    let class = k % 3;
                    let force_level = combo & 8 != 0 || level != 2; // level may only be left out when it is Q
                    let force_version = combo & 2 != 0;
                    let (lo, hi) = native_range(caps, v, level, class);
                    let len = if force_version {
                        if p == 0 { caps.cap(v, level, class) } else { (mix(ctx.seed, k as u64) as usize) % (caps.cap(v, level, class) + 1) }
                    } else {
                        lo + (mix(ctx.seed, k as u64) as usize) % (hi - lo + 1)
                    };
                    jobs.push(Job {
                        fam: FAMS[0],
                        class,
                        mode: if combo & 1 != 0 { Some(class) } else { None },
                        level: if force_level { Some(level) } else { None },
                        version: if force_version { Some(v) } else { None },
                        mask: if combo & 4 != 0 || p == 0 { Some(mask) } else { None },
                        len,
                        gen: k % GEN_COUNT,
                        seed: mix(ctx.seed, k as u64),
                        ..Default::default()
                    });
                }
            }
        }
        // nothing forced at all: level must default to Q
        for class in 0..3 {
            k += 1;
            let (lo, hi) = native_range(caps, v, 2, class);
            jobs.push(Job {
                fam: FAMS[1],
                class,
                len: lo + (mix(ctx.seed, k as u64) as usize) % (hi - lo + 1),
                gen: k % GEN_COUNT,
                seed: mix(ctx.seed, k as u64),
                ..Default::default()
            });
        }
    }
    // option walk: ONE payload built several times in a row on one thread, each time with one option forced,
    // released or changed (mode among those that accept the payload, level, mask, version); every build is
    // checked like any other. "Forced/automatic selection of each option" includes changing one's mind.
    for i in 0..ctx.tier.pick(300usize, ctx.scale(20_000)) {
        k += 1;
        let class = i % 3;
        let v = 1 + (mix(ctx.seed, k as u64) as usize) % if i % 5 == 0 { 40 } else { 9 };
        // a length that fits version v at level H in byte mode, so that every mode/level/version step below has a symbol
        let len = 1 + (mix(ctx.seed ^ 0x77, k as u64) as usize) % caps.cap(v, tables::H, 2).max(1);
        jobs.push(Job { fam: FAMS[3], class, mode: None, level: None, version: Some(v), mask: None, len, gen: k % GEN_COUNT, seed: mix(ctx.seed, k as u64), ..Default::default() });
    }
    // feedback-directed search for unusually CLEAN symbols (automatic mask, versions 1-3): the payload is hill-climbed
    // towards the lowest ranking score the crate itself reports through the candidate recorder; every improvement is
    // checked like any other build. Random payloads never come near the low end of the penalty scale.
    for i in 0..ctx.tier.pick(64usize, ctx.scale(1_500)) {
        k += 1;
        let v = 1 + i % 3;
        let level = (i / 3) % 4;
        let class = [2usize, 1, 2, 0][i % 4];
        let len = 1 + (mix(ctx.seed ^ 0xc1ea, k as u64) as usize) % caps.cap(v, level, class).max(1);
        jobs.push(Job { fam: FAMS[4], class, mode: Some(class), level: Some(level), version: Some(v), mask: None, len, gen: 0, seed: mix(ctx.seed, k as u64), ..Default::default() });
    }
    // payloads that BEGIN with something meaningful (byte order marks, URL schemes, escapes, magic numbers: the
    // dictionary of job.rs), in their own class's mode, in Byte mode and in automatic mode: the reported mode is the one
    // the first mode indicator of the symbol carries, whatever the content looks like
    for (class, payload) in crate::job::prefix_sweep(ctx.seed) {
        for (i, mode) in [None, Some(class), Some(2)].into_iter().enumerate() {
            if i == 2 && class == 2 {
                continue;
            }
            k += 1;
            jobs.push(Job { fam: FAMS[0], class, mode, level: if k % 3 == 0 { None } else { Some(k % 4) }, version: None, mask: if k % 2 == 0 { None } else { Some(k % 8) }, len: payload.len(), payload: Some(payload.clone()), seed: mix(ctx.seed, k as u64), ..Default::default() });
        }
    }
    // a forced mode whose alphabet does NOT contain the input: the crate documents an assertion failure there and no
    // symbol is demanded; but IF a QR code is returned, what it reports must still be what it physically encodes and
    // what the caller forced ("the ... mode ... reported on the returned QR code")
    {
        let mut rng = oracle::rng::Rng::new(ctx.seed ^ 0xf04);
        for i in 0..ctx.tier.pick(600usize, ctx.scale(20_000)) {
            k += 1;
            let mode = i % 2;
            let len = 1 + rng.below(40);
            let mut p = crate::job::gen_payload(mode, len, rng.below(GEN_COUNT), rng.next_u64());
            let foreign: &[u8] = if mode == 0 { b"A:/ az,\x00\xff-+Z$" } else { b"abcxyz,;!_\x00\x7f\x80\xff@#" };
            for _ in 0..1 + rng.below(3) {
                let at = rng.below(p.len());
                p[at] = *rng.pick(foreign);
            }
            jobs.push(Job {
                fam: FAMS[5],
                class: 2,
                mode: Some(mode),
                level: if rng.chance(1, 4) { None } else { Some(rng.below(4)) },
                version: if rng.chance(1, 2) { None } else { Some(1 + rng.below(12)) },
                mask: if rng.chance(1, 2) { None } else { Some(rng.below(8)) },
                len: p.len(),
                payload: Some(p),
                seed: mix(ctx.seed, k as u64),
                ..Default::default()
            });
        }
    }
    // no level given and more data than level Q can hold in version 40 (but not more than level L can):
    // the default is Q, so no symbol exists; a build that answers with a symbol of a lower level does
    // not "default to level Q"
    let per = ctx.tier.pick(40, ctx.scale(400));
    for class in 0..3usize {
        let q40 = caps.cap(40, tables::Q, class);
        let l40 = caps.cap(40, tables::L, class);
        for i in 0..per {
            k += 1;
            let len = match i {
                0 => q40 + 1,
                1 => l40,
                2 => caps.cap(40, tables::M, class),
                3 => caps.cap(40, tables::M, class) + 1,
                _ => q40 + 1 + (mix(ctx.seed, k as u64) as usize) % (l40 - q40),
            };
            jobs.push(Job {
                fam: FAMS[2],
                class,
                mode: if i % 2 == 0 { Some(class) } else { None },
                version: if i % 3 == 0 { Some(40) } else { None },
                mask: if i % 4 == 0 { None } else { Some(i % 8) },
                len,
                gen: k % GEN_COUNT,
                seed: mix(ctx.seed, k as u64),
                ..Default::default()
            });
        }
    }
    jobs
}

/// family "no-level-beyond-q": whatever comes back must not be a symbol of another level
fn observe_beyond_q(st: &mut Stats, job: &Job) {
    let cfg = job.config();
    match adapter::build(&cfg) {
        Outcome::Ok(qr) => {
            let m = adapter::matrix_of(&qr);
            let (f1, _) = decode::read_format_copies(&m);
            let (l1, _, _) = bch::decode_format(f1);
            let reported = qr.ecl.map(adapter::level_no);
            flag(
                st,
                ID,
                ("default-level-not-q".into(), format!("no level was given and {} characters exceed what level Q holds in version 40, yet a symbol came back: reported level {:?}, format information says {}", cfg.input.len(), reported.map(|l| tables::LEVEL_NAMES[l]), tables::LEVEL_NAMES[l1])),
                job,
                false,
            );
        }
        Outcome::Panic(p) => flag(st, ID, ("no-symbol".into(), format!("build panicked: {p}")), job, false),
        _ => {
            st.count("no_level_given_beyond_q_capacity_refused", 1);
            st.distinct(job.key(&cfg.input));
        }
    }
}

/// family "forced-mode-outside-alphabet": nothing has to come back, but a returned QR code has to tell the truth
fn observe_foreign(st: &mut Stats, job: &Job) {
    let cfg = job.config();
    match adapter::build(&cfg) {
        Outcome::Ok(qr) => {
            let m = adapter::matrix_of(&qr);
            let reported = qr.mode.map(adapter::mode_no);
            let name = |x: Option<usize>| x.map_or("None".to_string(), |v| tables::MODE_NAMES[v].to_string());
            match decode::decode(&m) {
                Ok(d) if !d.parsed.segments.is_empty() => {
                    let phys = d.parsed.segments[0].mode;
                    if reported != Some(phys) {
                        flag(st, ID, ("mode-field".into(), format!("mode {} was forced on an input outside its alphabet and a QR code came back: it reports mode {}, its first mode indicator says {}", name(cfg.mode), name(reported), tables::MODE_NAMES[phys])), job, false);
                    } else if reported != cfg.mode {
                        flag(st, ID, ("mode-not-forced-one".into(), format!("mode {} was forced (on an input outside its alphabet) and a QR code came back reporting mode {}", name(cfg.mode), name(reported))), job, false);
                    } else {
                        st.count("foreign_input_symbols_with_truthful_mode", 1);
                    }
                }
                Ok(_) => flag(st, ID, ("no-segment".into(), "forced mode outside the input's alphabet: the returned symbol decodes to zero segments".into()), job, false),
                Err(e) => flag(st, ID, ("decode-failed".into(), format!("forced mode outside the input's alphabet: the returned symbol does not decode with the parameters it announces: {e}")), job, false),
            }
        }
        _ => {
            st.count("foreign_input_refused", 1);
            st.distinct(job.key(&cfg.input));
        }
    }
}

fn cleanest_search(ctx: &Ctx, st: &mut Stats, job: &Job) {
    let mut rng = oracle::rng::Rng::new(job.seed ^ 0xc1ea);
    let mut payload = job.payload();
    let span = [10usize, 45, 256][job.class];
    let sym = |class: usize, k: usize| -> u8 {
        match class {
            0 => b'0' + (k % 10) as u8,
            1 => tables::alnum_char(k % 45),
            _ => k as u8,
        }
    };
    let score_of = |p: &[u8]| -> Option<u32> {
        let cfg = adapter::Config { input: p.to_vec(), mode: job.mode, level: job.level, version: job.version, mask: None };
        let (out, rec) = adapter::build_recorded(&cfg);
        match out {
            Outcome::Ok(_) if !rec.is_empty() => rec.iter().map(|c| c.score).min(),
            _ => None,
        }
    };
    let mut best = match score_of(&payload) {
        Some(s) => s,
        None => {
            // no recorder output (hook silent) or no symbol: nothing to steer by; the plain build is still checked
            let j = Job { fam: FAMS[0], payload: Some(payload), ..job.clone() };
            observe(ctx, st, &j);
            return;
        }
    };
    let steps = ctx.tier.pick(500, 1500);
    for _ in 0..steps {
        if payload.is_empty() {
            break;
        }
        let at = rng.below(payload.len());
        let old = payload[at];
        payload[at] = sym(job.class, rng.below(span));
        if tables::classify(&payload) > job.class {
            payload[at] = old;
            continue;
        }
        match score_of(&payload) {
            Some(s) if s <= best => {
                if s < best {
                    best = s;
                    let j = Job { fam: FAMS[0], payload: Some(payload.clone()), ..job.clone() };
                    let before = st.violations.len();
                    observe(ctx, st, &j);
                    st.count("cleanest_search_improvements_checked", 1);
                    if st.violations.len() > before {
                        return;
                    }
                }
            }
            _ => payload[at] = old,
        }
    }
    st.reach("lowest_ranking_scores_reached", best as u64);
    // evidence: the lowest score any search reached (inverted so that the merge keeps the minimum)
    st.max("max_of_1000000_minus_lowest_ranking_score", 1_000_000u64.saturating_sub(best as u64));
}

pub fn observe(ctx: &Ctx, st: &mut Stats, job: &Job) {
    if job.fam == FAMS[4] {
        return cleanest_search(ctx, st, job);
    }
    if job.fam == FAMS[3] {
        // the walk: derive successive configurations from the job's seed; the payload stays the same
        let mut rng = oracle::rng::Rng::new(job.seed ^ 0x3a1c);
        let mut cur = job.clone();
        let payload = job.payload();
        cur.payload = Some(payload);
        cur.fam = FAMS[0];
        let steps = 4 + rng.below(5);
        for _ in 0..steps {
            match rng.below(4) {
                0 => cur.mode = if rng.chance(1, 3) { None } else { Some(job.class.max(rng.below(3))) },
                1 => cur.level = if rng.chance(1, 3) { None } else { Some(rng.below(4)) },
                2 => cur.mask = if rng.chance(1, 3) { None } else { Some(rng.below(8)) },
                _ => cur.version = if rng.chance(1, 4) { job.version } else { job.version.map(|v| (v + rng.below(3)).min(40)) },
            }
            let before = st.violations.len();
            observe(ctx, st, &cur);
            st.count("option_walk_builds", 1);
            if st.violations.len() > before {
                // replay must repeat the whole walk (the fault may depend on the builds before this one)
                for v in &mut st.violations[before..] {
                    v.detail = format!("{} (step of an option walk over one payload)", v.detail);
                    v.job = job.to_json();
                }
                break;
            }
        }
        return;
    }
    let cfg = job.config();
    st.eval();
    if job.fam == FAMS[2] {
        return observe_beyond_q(st, job);
    }
    if job.fam == FAMS[5] {
        return observe_foreign(st, job);
    }
    let exp = match symbol::expect(&cfg, &ctx.caps) {
        Ok(e) => e,
        Err(why) => {
            st.inconclusive(format!("workload bug ({why}): {}", cfg.describe()));
            return;
        }
    };
    let qr = match adapter::build(&cfg) {
        Outcome::Ok(q) => q,
        other => {
            flag(st, ID, ("no-symbol".into(), format!("a symbol exists (v{}), crate returned {}", exp.version, other.describe())), job, false);
            return;
        }
    };
    let m = adapter::matrix_of(&qr);
    let second = |mask: usize| symbol::second_opinion_agrees(&m, exp.mode, exp.version, exp.level, mask, &cfg.input);
    let phys_version = match decode::version_of_size(m.size) {
        Ok(v) => v,
        Err(e) => {
            flag(st, ID, ("size".into(), e), job, false);
            return;
        }
    };
    // what the symbol physically says
    let (f1, f2) = decode::read_format_copies(&m);
    let (l1, k1, d1) = bch::decode_format(f1);
    let (l2, k2, d2) = bch::decode_format(f2);
    if d1 != 0 || d2 != 0 || (l1, k1) != (l2, k2) {
        flag(
            st,
            ID,
            ("format-not-a-codeword".into(), format!("format copies read {f1:015b} / {f2:015b}: nearest valid words at distance {d1} / {d2} give (level {}, mask {k1}) / (level {}, mask {k2})", tables::LEVEL_NAMES[l1], tables::LEVEL_NAMES[l2])),
            job,
            second(qr.mask.map(adapter::mask_no).unwrap_or(0)),
        );
        return;
    }
    st.count("format_copies_checked", 2);
    if let Err(v) = symbol::check_format_version(&m, phys_version, l1, k1) {
        flag(st, ID, v, job, second(k1));
        return;
    }
    if phys_version >= 7 {
        st.count("version_blocks_checked", 2);
    }
    // the physical mode: decode the symbol with the parameters it announces
    let phys_mode = match decode::decode(&m) {
        Ok(d) if !d.parsed.segments.is_empty() => {
            // ONE mode is reported for the whole symbol: a later segment in another mode makes that report untrue
            // however the first mode indicator reads (segments that repeat the first one's mode are fine)
            let first = d.parsed.segments[0].mode;
            if let Some((i, other)) = d.parsed.segments.iter().enumerate().find(|(_, s)| s.mode != first) {
                flag(st, ID, ("mode-of-later-segment".into(), format!("the symbol carries {} segments: the first is {} ({} characters), segment {} is {} ({} characters); the QR code reports the single mode {}", d.parsed.segments.len(), tables::MODE_NAMES[first], d.parsed.segments[0].bytes.len(), i + 1, tables::MODE_NAMES[other.mode], other.bytes.len(), qr.mode.map(|x| tables::MODE_NAMES[adapter::mode_no(x)]).unwrap_or("none"))), job, false);
                return;
            }
            st.count("segments_read_for_the_physical_mode", d.parsed.segments.len() as u64);
            first
        }
        Ok(_) => {
            flag(st, ID, ("no-segment".into(), "symbol decodes to zero segments".into()), job, second(k1));
            return;
        }
        Err(e) => {
            flag(st, ID, ("decode-failed".into(), format!("symbol does not decode with the parameters it announces (level {}, mask {k1}): {e}", tables::LEVEL_NAMES[l1])), job, second(k1));
            return;
        }
    };
    if phys_version != exp.version {
        flag(st, ID, ("version-physical".into(), format!("symbol is version {phys_version}, expected {}", exp.version)), job, false);
        return;
    }
    if let Err(v) = symbol::check_fields(&qr, &cfg, &exp, l1, k1, phys_mode) {
        flag(st, ID, v, job, false);
        return;
    }
    st.count("field_sets_checked", 1);
    st.reach("version_level_mask", ((phys_version * 4 + l1) * 8 + k1) as u64);
    st.reach("level_mask_words", (l1 * 8 + k1) as u64);
    if phys_version >= 7 {
        st.reach("version_words", phys_version as u64);
    }
    st.reach("forced_option_combos", (cfg.mode.is_some() as u64) | (cfg.version.is_some() as u64) << 1 | (cfg.mask.is_some() as u64) << 2 | (cfg.level.is_some() as u64) << 3);
    if cfg.level.is_none() {
        st.count("default_level_builds", 1);
    }
    st.distinct(job.key(&cfg.input));
    st.sample(173, || {
        json!({"options": cfg.describe(), "input": adapter::short_hex(&cfg.input), "format_word": format!("{f1:015b}"),
               "physical": {"version": phys_version, "level": tables::LEVEL_NAMES[l1], "mask": k1, "mode": tables::MODE_NAMES[phys_mode]}})
    });
}

pub fn run(ctx: &Ctx) -> Report {
    let jobs = jobs(ctx);
    let st = pool::run(&jobs, ctx.remaining(), |st, job, _| observe(ctx, st, job));
    let mut rep = Report::new(
        st,
        "jobs = every (version, level, mask) cell (1280, enumerated completely) with the 16 forced/automatic option combinations rotating (level only left automatic in Q cells), + builds with nothing forced per (version, class) + feedback-directed searches for unusually clean symbols (payload hill-climbed towards the lowest ranking score the crate reports, versions 1-3, automatic mask; every improvement checked) + option walks (one payload built 4-8 times in a row on one thread while one option at a time is forced, released or changed) + builds with no level given and more data than level Q holds in version 40 (any symbol returned there is not level Q) + every dictionary prefix (byte order marks, URL schemes, escapes, magic numbers) alone and with tails, in automatic mode, its own mode and Byte mode + forced Numeric/Alphanumeric mode on inputs outside the alphabet (nothing has to come back, but a QR code that does must report the mode its mode indicator carries and the one that was forced); both 15-bit format copies are read at the ISO positions and must equal BCH(15,5)(level,mask)^0x5412 computed by polynomial division, both 18-bit version blocks must equal BCH(18,6)(version), and version/level/mask/mode/size fields must equal what the symbol physically encodes (mode from the decoded mode indicators of ALL segments: a later segment in another mode belies the single reported mode), what was forced, and level Q by default; distinct key = (options, len, payload hash); every case non-trivial",
    );
    rep.exhaustive = Some(true);
    rep.expected_sets = vec![("version_level_mask", 1280), ("level_mask_words", 32), ("version_words", 34), ("forced_option_combos", 16)];
    rep.required_sets = vec![("version_level_mask", 1280), ("level_mask_words", 32), ("version_words", 34)];
    rep.min_evaluations = 1280;
    rep.assumptions = vec!["exhaustive refers to the (version, level, mask) space; payloads and option combinations per cell are sampled".into()];
    rep
}

pub fn replay(ctx: &Ctx, job: &serde_json::Value) -> Option<Stats> {
    let job = Job::from_json(job, &FAMS)?;
    let mut st = Stats::new();
    observe(ctx, &mut st, &job);
    Some(st)
}
