//! C17 — WASM entry points equal the native API and never trap.
//! src/wasm.rs is compiled for the host through the guarded `verif_wasm_host` module
//! (unmodified file). Assumption recorded in the evidence: host usize is 64 bit.

use crate::adapter::{self, LEVELS, VERSIONS};
use crate::fw::{Ctx, Report};
use crate::pool;
use crate::render::{IBG, SHAPES};
use crate::stats::Stats;
use fast_qr::convert::svg::SvgBuilder;
use fast_qr::convert::Builder;
use fast_qr::verif_wasm_host as wasm;
use fast_qr::QRBuilder;
use oracle::rng::{mix, Rng};
use serde_json::{json, Value};

pub const ID: &str = "C17";

#[derive(Clone, Debug)]
pub enum Op {
    Shape(usize),
    ModuleColor(String),
    Margin(usize),
    Background(String),
    Image(String),
    ImageBg(String),
    ImageBgShape(usize),
    ImageSize(f64, f64),
    ImagePos(Vec<f64>),
    Ecl(usize),
    Version(usize),
}

fn fs(x: f64) -> String {
    format!("{x:?}")
}
fn fp(s: &str) -> Option<f64> {
    s.parse().ok()
}

impl Op {
    fn to_json(&self) -> Value {
        match self {
            Op::Shape(i) => json!({"op": "shape", "i": i}),
            Op::ModuleColor(s) => json!({"op": "module_color", "s": s}),
            Op::Margin(i) => json!({"op": "margin", "i": i}),
            Op::Background(s) => json!({"op": "background_color", "s": s}),
            Op::Image(s) => json!({"op": "image", "s": s}),
            Op::ImageBg(s) => json!({"op": "image_background_color", "s": s}),
            Op::ImageBgShape(i) => json!({"op": "image_background_shape", "i": i}),
            Op::ImageSize(a, b) => json!({"op": "image_size", "f": [fs(*a), fs(*b)]}),
            Op::ImagePos(v) => json!({"op": "image_position", "f": v.iter().map(|x| fs(*x)).collect::<Vec<_>>()}),
            Op::Ecl(i) => json!({"op": "ecl", "i": i}),
            Op::Version(i) => json!({"op": "version", "i": i}),
        }
    }
    fn from_json(v: &Value) -> Option<Op> {
        let i = || v.get("i").and_then(|x| x.as_u64()).map(|x| x as usize);
        let s = || v.get("s").and_then(|x| x.as_str()).map(|x| x.to_string());
        let f = || -> Option<Vec<f64>> { v.get("f")?.as_array()?.iter().map(|x| x.as_str().and_then(fp)).collect() };
        Some(match v.get("op")?.as_str()? {
            "shape" => Op::Shape(i()?),
            "module_color" => Op::ModuleColor(s()?),
            "margin" => Op::Margin(i()?),
            "background_color" => Op::Background(s()?),
            "image" => Op::Image(s()?),
            "image_background_color" => Op::ImageBg(s()?),
            "image_background_shape" => Op::ImageBgShape(i()?),
            "image_size" => {
                let f = f()?;
                Op::ImageSize(*f.first()?, *f.get(1)?)
            }
            "image_position" => Op::ImagePos(f()?),
            "ecl" => Op::Ecl(i()?),
            "version" => Op::Version(i()?),
            _ => return None,
        })
    }
}

#[derive(Clone, Debug)]
pub struct Prog {
    pub content: String,
    pub ops: Vec<Op>,
}

impl Prog {
    fn to_json(&self) -> Value {
        json!({"fam": "program", "content_hex": adapter::hex(self.content.as_bytes()), "ops": self.ops.iter().map(|o| o.to_json()).collect::<Vec<_>>()})
    }
    fn from_json(v: &Value) -> Option<Prog> {
        let content = String::from_utf8(adapter::unhex(v.get("content_hex")?.as_str()?)?).ok()?;
        let ops = v.get("ops")?.as_array()?.iter().map(Op::from_json).collect::<Option<Vec<_>>>()?;
        Some(Prog { content, ops })
    }
}

const BAD_COLOURS: [&str; 22] = [
    "", "#", "#1", "#12", "#123", "#1234", "#12345", "#1234567", "#123456789", "#GGGGGG", "#zzzzzz", "#+1+2+3", "#-1-2-3", "ffffff", "#ffff\u{e9}", "\u{e9}\u{e9}\u{e9}", "#\u{1F680}\u{1F680}", "######", "# 1 2 3", "#0x0x0x", "red", "#12 456",
];

fn documented_colour(s: &str) -> Option<[u8; 4]> {
    let h = s.strip_prefix('#')?;
    if !(h.len() == 6 || h.len() == 8) || !h.bytes().all(|b| b.is_ascii_hexdigit()) {
        return None;
    }
    let p = |i: usize| u8::from_str_radix(&h[2 * i..2 * i + 2], 16).unwrap();
    Some([p(0), p(1), p(2), if h.len() == 8 { p(3) } else { 255 }])
}

fn random_colour_string(rng: &mut Rng) -> String {
    match rng.below(5) {
        0 => format!("#{:02x}{:02x}{:02x}", rng.byte(), rng.byte(), rng.byte()),
        1 => format!("#{:02X}{:02x}{:02X}{:02x}", rng.byte(), rng.byte(), rng.byte(), rng.byte()),
        2 | 3 => rng.pick(&BAD_COLOURS).to_string(),
        _ => {
            if rng.chance(1, 8) {
                "#".to_string() + &"ab".repeat(512)
            } else {
                let n = rng.below(12);
                (0..n).map(|_| *rng.pick(&['#', '0', '9', 'a', 'F', 'g', 'z', '+', '-', ' ', '\u{e9}', '\u{4e2d}'])).collect()
            }
        }
    }
}

fn random_f(rng: &mut Rng) -> f64 {
    match rng.below(12) {
        0 => f64::NAN,
        1 => f64::INFINITY,
        2 => f64::NEG_INFINITY,
        3 => 0.0,
        4 => -1.0 - rng.f64() * 10.0,
        5 => 1e300,
        _ => (rng.f64() * 40.0 * 100.0).round() / 100.0,
    }
}

/// dictionary strings that are valid UTF-8 (what people put into QR codes, byte order marks, escapes, look-alikes)
fn dictionary() -> &'static Vec<String> {
    static D: std::sync::OnceLock<Vec<String>> = std::sync::OnceLock::new();
    D.get_or_init(|| {
        let mut v: Vec<String> = crate::job::prefix_sweep(0x17).into_iter().filter_map(|(_, p)| String::from_utf8(p).ok()).collect();
        v.extend(crate::job::UNICODE_LOOKALIKES.iter().map(|s| s.to_string()));
        v.push("\u{feff}".to_string());
        v.push("\u{feff}X".to_string());
        v.push("\u{feff}https://example.com/".to_string());
        v
    })
}

fn random_content(rng: &mut Rng) -> String {
    if rng.chance(1, 5) {
        let d = dictionary();
        let mut s = d[rng.below(d.len())].clone();
        if rng.chance(1, 3) {
            s.push_str(&d[rng.below(d.len())]);
        }
        return s;
    }
    match rng.below(10) {
        0 => String::new(),
        1 => (0..rng.below(60)).map(|_| (b'0' + rng.below(10) as u8) as char).collect(),
        2 => (0..rng.below(60)).map(|_| oracle::tables::alnum_char(rng.below(45)) as char).collect(),
        3 => (0..rng.below(40)).map(|_| *rng.pick(&['\u{e9}', '\u{4e2d}', '\u{1F680}', 'a', ' ', '\n', '\0'])).collect(),
        4 => "x".repeat(1600 + rng.below(120)), // around the byte capacity of version 40 at the default level Q (1663)
        5 => "7".repeat(3940 + rng.below(110)), // around the numeric capacity at level Q (3993)
        6 => "y".repeat(8000),
        _ => (0..rng.below(120)).map(|_| (0x20 + rng.below(0x5f) as u8) as char).collect(),
    }
}

pub fn jobs(ctx: &Ctx) -> Vec<Prog> {
    let n = ctx.tier.pick(12_000, ctx.scale(600_000));
    let mut out = Vec::with_capacity(n);
    for k in 0..n {
        let mut rng = Rng::new(mix(ctx.seed, k as u64 ^ 0xc17));
        let content = random_content(&mut rng);
        let nops = match rng.below(4) {
            0 => 0,
            1 => 1 + rng.below(3),
            _ => 1 + rng.below(14),
        };
        let mut ops = Vec::with_capacity(nops);
        for _ in 0..nops {
            ops.push(match rng.below(11) {
                // 6 = a caller-supplied drawing function (`Shape::Command`), which the host compilation of wasm.rs accepts
                // like any other shape
                0 => Op::Shape(rng.below(7)),
                1 => Op::ModuleColor(random_colour_string(&mut rng)),
                // (also margins beyond 2^31 and 2^32: a 64-bit `usize` holds them, the native builder draws them)
                2 => Op::Margin(*rng.pick(&[0usize, 1, 2, 4, 7, 16, 1000, 1 << 20, (1 << 31) - 1, 1 << 31, 2_147_483_560, (1 << 32) + 5, 1_000_000_000_000])),
                3 => Op::Background(random_colour_string(&mut rng)),
                // (one image in 150 is a data URI of 2 MiB, 2 MiB + 1 or 3 MiB: length is not a reason to treat it differently)
                4 => Op::Image(if rng.chance(1, 150) {
                    let n = [2_097_152usize, 2_097_153, 3_145_728][rng.below(3)];
                    let head = "data:image/png;base64,";
                    format!("{head}{}", "QUJD".repeat((n - head.len()) / 4 + 1))[..n].to_string()
                } else if rng.chance(1, 4) {
                    String::new()
                } else {
                    crate::render::random_image_string_raw(&mut rng)
                }),
                5 => Op::ImageBg(random_colour_string(&mut rng)),
                6 => Op::ImageBgShape(rng.below(3)),
                7 => Op::ImageSize(random_f(&mut rng), random_f(&mut rng)),
                8 => Op::ImagePos((0..rng.below(5)).map(|_| random_f(&mut rng)).collect()),
                9 => Op::Ecl(rng.below(4)),
                _ => Op::Version(*rng.pick(&[1usize, 2, 5, 10, 40]) ),
            });
        }
        // coincidences: the image backdrop colour equals the background colour (or the module colour) of the same
        // program, as in a dark-theme code with a logo on a matching backdrop
        if rng.chance(1, 5) {
            let donor = ops.iter().rev().find_map(|o| match o {
                Op::Background(s) | Op::ModuleColor(s) => Some(s.clone()),
                _ => None,
            });
            let c = donor.unwrap_or_else(|| "#101820".to_string());
            if !ops.iter().any(|o| matches!(o, Op::Background(_))) {
                ops.push(Op::Background(c.clone()));
            }
            ops.push(Op::ImageBg(c));
            if !ops.iter().any(|o| matches!(o, Op::Image(s) if !s.is_empty())) {
                ops.push(Op::Image("logo.png".into()));
            }
        }
        // make the classic partial settings frequent
        if k % 7 == 0 {
            ops.push(Op::Image("i.png".into()));
            ops.push(Op::ImageSize(5.0, 1.0));
        }
        if k % 11 == 0 {
            ops.push(Op::Image("i.png".into()));
            ops.push(Op::ImagePos(vec![10.0, 12.5]));
        }
        out.push(Prog { content, ops });
    }
    out
}

#[derive(Clone, Debug, PartialEq)]
enum Col {
    Known([u8; 4]),
    Unknown,
}

/// the drawing function behind shape index 6
fn custom_shape(y: usize, x: usize, _m: fast_qr::Module) -> String {
    format!("M{x},{y}h.5v.5h-.5z")
}

fn shape_of(k: usize) -> fast_qr::convert::Shape {
    if k < 6 {
        SHAPES[k]
    } else {
        fast_qr::convert::Shape::Command(custom_shape)
    }
}

pub fn observe(_ctx: &Ctx, st: &mut Stats, p: &Prog) {
    st.eval();
    let fail = |st: &mut Stats, kind: &str, detail: String| st.violation(ID, kind, format!("{detail} [content {} bytes, {} setter calls]", p.content.len(), p.ops.len()), p.to_json());

    // matrix export
    let native = QRBuilder::new(p.content.clone()).build();
    let got = match adapter::guarded(|| wasm::qr(&p.content)) {
        Ok(v) => v,
        Err(m) => return fail(st, "trap-qr", format!("qr() panicked: {m}")),
    };
    match &native {
        Ok(q) => {
            let want: Vec<u8> = q.data[..q.size * q.size].iter().map(|m| m.value() as u8).collect();
            if got != want {
                return fail(st, "qr-matrix-differs", format!("qr() returned {} bytes, native default build has {} modules; first difference at {:?}", got.len(), want.len(), got.iter().zip(&want).position(|(a, b)| a != b)));
            }
            st.count("matrix_exports_equal_native", 1);
        }
        Err(_) => {
            if !got.is_empty() {
                return fail(st, "qr-nonempty-on-error", format!("content cannot be encoded but qr() returned {} bytes", got.len()));
            }
            st.count("matrix_exports_empty_on_error", 1);
        }
    }

    // option object through its setters, each under catch_unwind; model alongside
    let mut shape = 0usize;
    let mut margin = 4usize;
    let mut module = Col::Known([0, 0, 0, 255]);
    let mut bg = Col::Known([255, 255, 255, 255]);
    let mut ibg = Col::Known([255, 255, 255, 255]);
    let mut image = String::new();
    let mut ibs = 0usize;
    let mut isize: Option<(f64, f64)> = None;
    let mut ipos: Option<(f64, f64)> = None;
    let mut ecl: Option<usize> = None;
    let mut version: Option<usize> = None;
    let mut opts = match adapter::guarded(wasm::SvgOptions::new) {
        Ok(o) => o,
        Err(m) => return fail(st, "trap-new", m),
    };
    for (i, op) in p.ops.iter().enumerate() {
        let o = opts.clone();
        let colour_model = |cur: &Col, s: &str| match documented_colour(s) {
            Some(c) => Col::Known(c),
            None => {
                let _ = cur;
                Col::Unknown
            }
        };
        let r = adapter::guarded(|| match op {
            Op::Shape(k) => o.shape(shape_of(*k)),
            Op::ModuleColor(s) => o.module_color(s.clone()),
            Op::Margin(m) => o.margin(*m),
            Op::Background(s) => o.background_color(s.clone()),
            Op::Image(s) => o.image(s.clone()),
            Op::ImageBg(s) => o.image_background_color(s.clone()),
            Op::ImageBgShape(k) => o.image_background_shape(IBG[*k]),
            Op::ImageSize(a, b) => o.image_size(*a, *b),
            Op::ImagePos(v) => o.image_position(v.clone()),
            Op::Ecl(k) => o.ecl(LEVELS[*k]),
            Op::Version(k) => o.version(VERSIONS[*k - 1]),
        });
        opts = match r {
            Ok(o) => o,
            Err(m) => return fail(st, "trap-setter", format!("setter call {i} {} panicked: {m}", op.to_json())),
        };
        st.count("setter_calls", 1);
        match op {
            Op::Shape(k) => shape = *k,
            Op::ModuleColor(s) => {
                // an undocumented string may be ignored (keeps the previous value) or accepted
                // as some colour: only when the previous value is known AND the string is
                // documented do we know the result
                module = match (documented_colour(s), &module) {
                    (Some(c), _) => Col::Known(c),
                    (None, _) => colour_model(&module, s),
                };
                if documented_colour(s).is_none() {
                    st.count("malformed_colour_strings", 1);
                }
            }
            Op::Margin(m) => margin = *m,
            Op::Background(s) => {
                bg = colour_model(&bg, s);
                if documented_colour(s).is_none() {
                    st.count("malformed_colour_strings", 1);
                }
            }
            Op::Image(s) => image = s.clone(),
            Op::ImageBg(s) => {
                ibg = colour_model(&ibg, s);
                if documented_colour(s).is_none() {
                    st.count("malformed_colour_strings", 1);
                }
            }
            Op::ImageBgShape(k) => ibs = *k,
            Op::ImageSize(a, b) => isize = Some((*a, *b)),
            Op::ImagePos(v) => {
                if v.len() == 2 {
                    ipos = Some((v[0], v[1]));
                } else {
                    st.count("position_arrays_of_wrong_length", 1);
                }
            }
            Op::Ecl(k) => ecl = Some(*k),
            Op::Version(k) => version = Some(*k),
        }
    }
    let got = match adapter::guarded(|| wasm::qr_svg(&p.content, opts.clone())) {
        Ok(s) => s,
        Err(m) => return fail(st, "trap-qr-svg", format!("qr_svg() panicked: {m}")),
    };
    // native builder configured from the model
    let mut qb = QRBuilder::new(p.content.clone());
    if let Some(l) = ecl {
        qb.ecl(LEVELS[l]);
    }
    if let Some(v) = version {
        qb.version(VERSIONS[v - 1]);
    }
    let want = match qb.build() {
        Err(_) => String::new(),
        Ok(q) => {
            let col = |c: &Col| match c {
                Col::Known(x) => *x,
                Col::Unknown => [1, 2, 3, 255],
            };
            let mut b = SvgBuilder::default();
            b.shape(shape_of(shape));
            b.margin(margin);
            b.background_color(col(&bg));
            b.module_color(col(&module));
            if !image.is_empty() {
                b.image(image.clone());
            }
            b.image_background_color(col(&ibg));
            b.image_background_shape(IBG[ibs]);
            if let Some((s, g)) = isize {
                b.image_size(s);
                b.image_gap(g);
            }
            if let Some((x, y)) = ipos {
                b.image_position(x, y);
            }
            b.to_str(&q)
        }
    };
    if want.is_empty() {
        if !got.is_empty() {
            return fail(st, "svg-nonempty-on-error", format!("content cannot be encoded with these options but qr_svg returned {} bytes", got.len()));
        }
        st.count("svg_exports_empty_on_error", 1);
    } else {
        let all_known = module != Col::Unknown && bg != Col::Unknown && ibg != Col::Unknown;
        if all_known {
            if got != want {
                let at = got.bytes().zip(want.bytes()).position(|(a, b)| a != b).unwrap_or(got.len().min(want.len()));
                let ctx_of = |s: &str| s.get(at.saturating_sub(40)..(at + 60).min(s.len())).unwrap_or("").to_string();
                return fail(st, "svg-differs", format!("qr_svg output differs from the native builder at byte {at}: wasm ...{}... native ...{}...", ctx_of(&got), ctx_of(&want)));
            }
            st.count("svg_exports_equal_native", 1);
        } else {
            // colours are not pinned down by the property for malformed strings: compare everything else
            let strip = |s: &str| -> String {
                let mut out = String::with_capacity(s.len());
                let mut rest = s;
                loop {
                    let f = rest.find("fill=\"");
                    let k = rest.find("stroke=\"");
                    let (at, kw) = match (f, k) {
                        (None, None) => break,
                        (Some(a), None) => (a, 6),
                        (None, Some(b)) => (b, 8),
                        (Some(a), Some(b)) => {
                            if a < b {
                                (a, 6)
                            } else {
                                (b, 8)
                            }
                        }
                    };
                    out.push_str(&rest[..at + kw]);
                    rest = &rest[at + kw..];
                    match rest.find('"') {
                        Some(q) => {
                            out.push('?');
                            rest = &rest[q..];
                        }
                        None => break,
                    }
                }
                out.push_str(rest);
                out
            };
            if let Err(e) = roxmltree::Document::parse(&got) {
                return fail(st, "svg-not-well-formed", format!("after malformed colour strings the document is not well-formed: {e}"));
            }
            if strip(&got) != strip(&want) {
                return fail(st, "svg-differs-beyond-colours", "after malformed colour strings the document differs from the native one in more than fill/stroke values".into());
            }
            st.count("svg_exports_equal_native_modulo_unpinned_colours", 1);
        }
    }
    // call sequences: the entry points are called again on the same thread right after each other with the
    // same content (matrix export after the SVG export, SVG export with a fresh default option object, the
    // same SVG export twice): every answer must be the one a single call gives
    let again = match adapter::guarded(|| wasm::qr(&p.content)) {
        Ok(v) => v,
        Err(m) => return fail(st, "trap-qr", format!("second qr() call panicked: {m}")),
    };
    let first_qr_len = native.as_ref().map(|q| q.size * q.size).unwrap_or(0);
    let want_again: Vec<u8> = native.as_ref().map(|q| q.data[..q.size * q.size].iter().map(|m| m.value() as u8).collect()).unwrap_or_default();
    if again != want_again {
        return fail(st, "qr-matrix-differs-after-svg-export", format!("qr() called after qr_svg() with the same content returned {} bytes, the native default build has {first_qr_len} modules", again.len()));
    }
    let twice = match adapter::guarded(|| wasm::qr_svg(&p.content, opts.clone())) {
        Ok(s) => s,
        Err(m) => return fail(st, "trap-qr-svg", format!("second qr_svg() call panicked: {m}")),
    };
    if twice != got {
        return fail(st, "svg-not-repeatable", "qr_svg() called twice with the same content and options returned different documents".into());
    }
    let plain = match adapter::guarded(|| wasm::qr_svg(&p.content, wasm::SvgOptions::new())) {
        Ok(s) => s,
        Err(m) => return fail(st, "trap-qr-svg", format!("qr_svg() with default options panicked: {m}")),
    };
    let want_plain = match &native {
        Ok(q) => {
            let mut b = SvgBuilder::default();
            b.shape(SHAPES[0]);
            b.to_str(q)
        }
        Err(_) => String::new(),
    };
    if plain != want_plain {
        return fail(st, "svg-differs-after-earlier-export", format!("qr_svg() with default options, called after an export of the same content with other options, returned {} bytes; the native default document has {}", plain.len(), want_plain.len()));
    }
    st.count("follow_up_calls_equal_single_call", 3);
    st.reach("setter_kinds", p.ops.iter().fold(0u64, |a, o| a | 1 << match o {
        Op::Shape(_) => 0, Op::ModuleColor(_) => 1, Op::Margin(_) => 2, Op::Background(_) => 3, Op::Image(_) => 4, Op::ImageBg(_) => 5,
        Op::ImageBgShape(_) => 6, Op::ImageSize(..) => 7, Op::ImagePos(_) => 8, Op::Ecl(_) => 9, Op::Version(_) => 10 }) & 0x7ff);
    for o in &p.ops {
        st.reach("setters_used", match o { Op::Shape(_) => 0, Op::ModuleColor(_) => 1, Op::Margin(_) => 2, Op::Background(_) => 3, Op::Image(_) => 4, Op::ImageBg(_) => 5, Op::ImageBgShape(_) => 6, Op::ImageSize(..) => 7, Op::ImagePos(_) => 8, Op::Ecl(_) => 9, Op::Version(_) => 10 });
    }
    st.reach("size_position_combinations", (isize.is_some() as u64) | (ipos.is_some() as u64) << 1 | (!image.is_empty() as u64) << 2);
    st.distinct(oracle::rng::fnv(p.to_json().to_string().as_bytes()));
    st.sample(499, || json!({"content_len": p.content.len(), "ops": p.ops.iter().map(|o| o.to_json()).collect::<Vec<_>>(), "svg_len": got.len()}));
}

pub fn run(ctx: &Ctx) -> Report {
    let jobs = jobs(ctx);
    let st = pool::run(&jobs, ctx.remaining(), |st, job, _| observe(ctx, st, job));
    let mut rep = Report::new(
        st,
        "jobs = option programs: content in {empty, digits, alphanumeric, UTF-8 incl. NUL/newline/emoji, printable ASCII, 1600-1720 bytes and 3940-4050 digits (around the level-Q capacity of version 40), 8000 bytes (over capacity)} x 0..14 setter calls drawn from all 11 setters with repeats: colours documented (#RRGGBB[AA]) and malformed (22 fixed shapes incl. wrong lengths, non-hex, signs, non-ASCII split by byte pairs, 1 KiB, random), margins {0..16,1000,2^20,2^31-1,2^31,2147483560,2^32+5,10^12}, images incl. empty, 2-3 MiB data URIs, XML-special strings, wrapped base64 data URIs and other strings with CR/LF/TAB, size pairs and position arrays of length 0..4 with NaN/inf/negative/1e300, size without position and vice versa, all levels, versions {1,2,5,10,40}; every call runs under catch_unwind (unwind = trap); qr(s) must equal the row-major 0/1 values of the native default build or be empty on error; qr_svg must equal byte for byte the SvgBuilder output configured through the public native API from a model of the option object (last valid value wins), or be empty on error; after a malformed colour string only well-formedness and equality outside fill/stroke values are asserted; distinct key = program hash; every program non-trivial",
    );
    rep.expected_sets = vec![("setters_used", 11), ("size_position_combinations", 8)];
    rep.required_sets = vec![("setters_used", 11), ("size_position_combinations", 8)];
    rep.min_evaluations = 4000;
    rep.assumptions = vec![
        "src/wasm.rs is executed as a 64-bit host compilation (no wasm32 target or runtime in this image): 32-bit-only behaviour is out of reach".into(),
        "margins for which 2*margin+size overflows usize are outside the explored domain".into(),
        "hook: #[path] include of the unmodified file behind feature verif_hooks".into(),
    ];
    rep
}

pub fn replay(ctx: &Ctx, job: &Value) -> Option<Stats> {
    let p = Prog::from_json(job)?;
    let mut st = Stats::new();
    observe(ctx, &mut st, &p);
    Some(st)
}
