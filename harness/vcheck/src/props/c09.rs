//! C09 — automatic mode is the most compact mode that can represent the input.

use crate::adapter::{self, Outcome};
use crate::fw::{flag, Ctx, Report, Tier};
use crate::job::Job;
use crate::pool;
use crate::stats::Stats;
use crate::symbol;
use oracle::rng::{mix, Rng};
use oracle::tables;
use serde_json::json;

pub const ID: &str = "C09";
pub const FAMS: [&str; 12] = ["byte-at-position", "class-pattern", "two-bytes", "planted-foreign", "single-class-long", "three-bytes", "real-world-prefixes", "token-strings", "edit-session", "unicode-lookalikes", "adjacent-pairs-in-long-strings", "occurrence-counts-at-256"];

const BG: [&[u8]; 3] = [b"0123456789", b"AZ $%*+-./:K7", b"az,!\x00\x7f\x80\xff@[`{"];
const REPS: [[u8; 2]; 3] = [[b'0', b'9'], [b'A', b':'], [b'a', 0xE9]];

/// The mode decision may not depend on which OTHER options are given: version pinned or not, level given or not, mask
/// forced or not rotate through all eight combinations (a pinned version is one that holds the payload even as bytes at
/// level H, so every classification has a symbol).
fn explicit(fam: &'static str, payload: Vec<u8>, k: u64, ctx: &Ctx) -> Job {
    let combo = (k % 8) as usize ^ ((k / 8) % 8) as usize;
    let version = if combo & 1 != 0 {
        (1..=40usize).find(|&v| ctx.caps.cap(v, tables::H, 2) >= payload.len()).map(|v| (v + (k / 64 % 3) as usize).min(40))
    } else {
        None
    };
    Job {
        fam,
        class: tables::classify(&payload),
        len: payload.len(),
        payload: Some(payload),
        seed: mix(ctx.seed, k),
        level: if combo & 2 != 0 { Some((k % 4) as usize) } else { None },
        mask: if combo & 4 != 0 { Some((k % 8) as usize) } else { None },
        version,
        ..Default::default()
    }
}

pub fn jobs(ctx: &Ctx) -> Vec<Job> {
    let mut jobs = Vec::new();
    let mut k = 0u64;
    // every byte value at every position of strings of length 1..=8 over three backgrounds
    for (bi, bg) in BG.iter().enumerate() {
        for len in 1..=8usize {
            for pos in 0..len {
                for b in 0..=255u8 {
                    k += 1;
                    let mut p: Vec<u8> = (0..len).map(|i| bg[(i * 5 + bi + len) % bg.len()]).collect();
                    p[pos] = b;
                    jobs.push(explicit(FAMS[0], p, k, ctx));
                }
            }
        }
    }
    // every class pattern (digit / alnum-only / other) up to length 8, two representatives per class
    for len in 0..=8usize {
        let count = 3usize.pow(len as u32);
        for code in 0..count {
            for rep in 0..2 {
                k += 1;
                let mut c = code;
                let p: Vec<u8> = (0..len)
                    .map(|i| {
                        let cls = c % 3;
                        c /= 3;
                        REPS[cls][(rep + i) % 2]
                    })
                    .collect();
                jobs.push(explicit(FAMS[1], p, k, ctx));
            }
        }
    }
    // all two-byte strings
    for a in 0..=255u8 {
        for b in 0..=255u8 {
            k += 1;
            jobs.push(explicit(FAMS[2], vec![a, b], k, ctx));
        }
    }
    // every ordered pair (c, d) with c in the 45-character set and d any byte value, adjacent, inside strings long
    // enough to be scanned a machine word (or a vector) at a time: background of 17..40 alphanumeric (or digit)
    // characters, the pair at an offset that walks through all positions of an aligned 8- and 16-byte block (quick:
    // two offsets per pair, thorough: all 16); classifiers that test several bytes at once have their blind spots
    // between neighbouring bytes
    {
        let offsets: Vec<usize> = ctx.tier.pick(vec![0usize, 1], (0..16).collect());
        let mut kk = 0usize;
        for ci in 0..45usize {
            let c = tables::alnum_char(ci);
            for d in 0..=255u8 {
                for &o in &offsets {
                    kk += 1;
                    k += 1;
                    let off = if ctx.tier == crate::fw::Tier::Quick { (kk * 7 + o * 5) % 16 } else { o };
                    let len = 17 + (kk % 24);
                    let digits = kk % 3 == 0;
                    let mut p: Vec<u8> = (0..len).map(|i| if digits { b'0' + ((i * 7 + kk) % 10) as u8 } else { tables::alnum_char((i * 11 + kk) % 45) }).collect();
                    p[off] = c;
                    p[off + 1] = d;
                    jobs.push(explicit(FAMS[10], p, k, ctx));
                }
            }
        }
    }
    // whole-string occurrence counts: every distinct byte value of the HIGHEST class present occurs exactly 256 or 512
    // times (or 255 / 257: the neighbours), spread through a background of the class below - a classifier that
    // tallies byte values in 8-bit counters, or looks at a sample, decides such strings from the wrong evidence
    {
        let mut rng = Rng::new(ctx.seed ^ 0x256);
        for i in 0..ctx.tier.pick(240usize, 4_000) {
            k += 1;
            let top_class = 1 + i % 2; // alphanumeric-only characters in digits, or other bytes in alphanumerics/digits
            let distinct = 1 + rng.below(2);
            let times = [256usize, 512, 256, 255, 257, 768][rng.below(6)];
            let tops: Vec<u8> = (0..distinct).map(|_| if top_class == 1 { *rng.pick(b"ABCXYZ $%*+-./:") } else { *rng.pick(b",;!_abz\x00\x7f\x80\xff@#") }).collect();
            let bg_len = rng.below(500);
            let bg_class = rng.below(top_class);
            let mut p: Vec<u8> = (0..bg_len).map(|_| if bg_class == 0 { b'0' + rng.below(10) as u8 } else { tables::alnum_char(rng.below(45)) }).collect();
            for &t in &tops {
                for _ in 0..times {
                    let at = rng.below(p.len() + 1);
                    p.insert(at, t);
                }
            }
            if p.len() <= 1250 {
                jobs.push(explicit(FAMS[11], p, k, ctx));
            }
        }
    }
    // what people put into QR codes: every dictionary prefix (URL schemes in both cases, WIFI:, vCard, tel:,
    // byte order marks, escapes ...) alone and with tails of its own class; the oracle class of each string
    // is computed from the 45-character set, not from the dictionary
    for (_, payload) in crate::job::prefix_sweep(ctx.seed) {
        k += 1;
        jobs.push(explicit(FAMS[6], payload, k, ctx));
    }
    // strings assembled from dictionary tokens, per class and length
    for class in 0..3usize {
        for i in 0..ctx.tier.pick(400usize, 20_000) {
            k += 1;
            let len = 1 + (mix(ctx.seed, k) as usize) % if i % 8 == 0 { 600 } else { 60 };
            jobs.push(Job { fam: FAMS[7], class, len, gen: crate::job::GEN_TOKENS, seed: mix(ctx.seed, k), level: Some((k % 4) as usize), mask: Some((k % 8) as usize), ..Default::default() });
        }
    }
    // non-ASCII look-alikes of digits / letters / blanks (digits of other scripts, fullwidth forms, fractions, NBSP):
    // alone, repeated, and mixed with ASCII digits and alphanumerics. To a QR encoder they are bytes >= 0x80: Byte mode.
    for (i, u) in crate::job::UNICODE_LOOKALIKES.iter().enumerate() {
        for variant in 0..6usize {
            k += 1;
            let s: String = match variant {
                0 => u.to_string(),
                1 => u.repeat(1 + i % 9),
                2 => format!("12345678{u}"),
                3 => format!("{u}0123456789012345"),
                4 => format!("ABC {u} 123"),
                _ => format!("{u}{}", crate::job::UNICODE_LOOKALIKES[(i * 7 + 3) % crate::job::UNICODE_LOOKALIKES.len()]),
            };
            jobs.push(explicit(FAMS[9], s.into_bytes(), k, ctx));
        }
    }
    // edit sessions ("typing into a QR generator"): one text of the form digits + alphanumerics + other bytes is
    // shortened from the end one character at a time down to nothing and typed back, then edited in the middle; every
    // intermediate text is built, on the same thread, in automatic mode. Consecutive inputs are prefixes /
    // extensions / one-character edits of each other and cross the class boundaries in both directions.
    for _ in 0..ctx.tier.pick(150usize, ctx.scale(6_000)) {
        k += 1;
        jobs.push(Job { fam: FAMS[8], class: 2, len: 0, seed: mix(ctx.seed, k ^ 0xed17), level: Some((k % 4) as usize), mask: Some((k % 8) as usize), ..Default::default() });
    }
    // long strings of one class with one foreign byte planted at a random position
    let mut rng = Rng::new(ctx.seed ^ 0xc09);
    let n = ctx.tier.pick(6_000, ctx.scale(500_000));
    for _ in 0..n {
        k += 1;
        let class = rng.below(2); // background digits or alnum
        let span = if rng.chance(1, 10) { 1200 } else { 120 };
        let len = 1 + rng.below(span);
        let pos = rng.below(len);
        let foreign = rng.byte();
        jobs.push(Job {
            fam: FAMS[3],
            class,
            len,
            gen: 0,
            seed: mix(ctx.seed, k),
            level: Some(rng.below(4)),
            mask: Some(rng.below(8)),
            aux: [pos as i64, foreign as i64, 0, 0],
            ..Default::default()
        });
    }
    // long strings of one class over the whole range of lengths a symbol can hold, at every level (the version-40
    // capacity at L is 7089 digits / 4296 alphanumerics / 2953 bytes)
    for class in 0..3usize {
        for level in 0..4usize {
            let cap = ctx.caps.cap(40, level, class);
            for i in 0..ctx.tier.pick(10usize, 200) {
                k += 1;
                let len = match i {
                    0 => cap,
                    1 => cap - 1,
                    2 => cap * 3 / 4,
                    _ => 1 + (mix(ctx.seed, k) as usize) % cap,
                };
                jobs.push(Job { fam: FAMS[4], class, len, gen: (k % crate::job::GEN_COUNT as u64) as usize, seed: mix(ctx.seed, k), level: Some(level), mask: Some((k % 8) as usize), ..Default::default() });
            }
        }
    }
    if ctx.tier == Tier::Thorough {
        // ALL three-byte strings (16.7 million): one job per two-byte prefix, the worker loops over the third byte
        for a in 0..=255u8 {
            for b in 0..=255u8 {
                k += 1;
                jobs.push(Job { fam: FAMS[5], class: 2, len: 3, payload: Some(vec![a, b, 0]), seed: mix(ctx.seed, k), level: Some((k % 4) as usize), mask: Some((k % 8) as usize), ..Default::default() });
            }
        }
        for class in 0..3usize {
            for len in (0..2000).step_by(7) {
                k += 1;
                jobs.push(Job { fam: FAMS[4], class, len, gen: (k % crate::job::GEN_COUNT as u64) as usize, seed: mix(ctx.seed, k), level: Some(0), mask: Some((k % 8) as usize), ..Default::default() });
            }
        }
    }
    jobs
}

fn payload_of(job: &Job) -> Vec<u8> {
    let mut p = job.payload();
    if job.fam == FAMS[3] {
        // background: pure class (digits, or alnum forced by the generator), then plant
        if job.class == 0 {
            p = p.iter().map(|&c| if c.is_ascii_digit() { c } else { b'5' }).collect();
        }
        let pos = job.aux[0] as usize;
        p[pos] = job.aux[1] as u8;
    }
    p
}

fn edit_session(ctx: &Ctx, st: &mut Stats, job: &Job) {
    let mut rng = Rng::new(job.seed);
    let (d, a, o) = (rng.below(26), rng.below(26), rng.below(8));
    let mut text: Vec<u8> = Vec::new();
    for _ in 0..d {
        text.push(b'0' + rng.below(10) as u8);
    }
    for _ in 0..a {
        text.push(tables::alnum_char(10 + rng.below(35)));
    }
    for _ in 0..o {
        text.push(*rng.pick(b"abcxyz,;!_@#\x00\x80\xff"));
    }
    let full = text.clone();
    let mut steps: Vec<Vec<u8>> = Vec::new();
    steps.push(full.clone());
    // delete from the end down to a random floor, type back
    let floor = rng.below(full.len() + 1);
    for l in (floor..full.len()).rev() {
        steps.push(full[..l].to_vec());
    }
    for l in floor + 1..=full.len() {
        steps.push(full[..l].to_vec());
    }
    // edits in the middle: replace, insert, delete one character
    let mut cur = full.clone();
    for _ in 0..6 {
        if cur.is_empty() {
            break;
        }
        let at = rng.below(cur.len());
        match rng.below(3) {
            0 => cur[at] = *rng.pick(b"0123456789AZ $%*+-./:az,\x80"),
            1 => cur.insert(at, *rng.pick(b"059AZ :-/az,")),
            _ => {
                cur.remove(at);
            }
        }
        steps.push(cur.clone());
    }
    let before = st.violations.len();
    for s in steps {
        let j = Job { fam: FAMS[1], payload: Some(s), ..job.clone() };
        observe(ctx, st, &j);
        st.count("edit_session_builds", 1);
        if st.violations.len() > before {
            for v in &mut st.violations[before..] {
                v.detail = format!("{} (step of an edit session: the texts built before it on this thread were extensions / prefixes / one-character edits of it)", v.detail);
                v.job = job.to_json();
            }
            return;
        }
    }
    st.count("edit_sessions", 1);
}

pub fn observe(ctx: &Ctx, st: &mut Stats, job: &Job) {
    if job.fam == FAMS[8] {
        return edit_session(ctx, st, job);
    }
    if job.fam == FAMS[5] && job.aux[3] == 0 {
        // expand the prefix job into its 256 strings (aux[3] = 1 marks an expanded single string, also used by replay)
        let base = job.payload();
        for c in 0..=255u8 {
            let j = Job { payload: Some(vec![base[0], base[1], c]), aux: [0, 0, 0, 1], ..job.clone() };
            observe(ctx, st, &j);
        }
        st.count("three_byte_prefixes_exhausted", 1);
        return;
    }
    let mut cfg = job.config();
    cfg.input = payload_of(job);
    cfg.mode = None;
    st.eval();
    let want = tables::classify(&cfg.input);
    let exp = match symbol::expect(&cfg, &ctx.caps) {
        Ok(e) => e,
        Err(why) => {
            st.inconclusive(format!("workload bug ({why}): {}", cfg.describe()));
            return;
        }
    };
    let jj = Job { payload: Some(cfg.input.clone()), ..job.clone() };
    let qr = match adapter::build(&cfg) {
        Outcome::Ok(q) => q,
        Outcome::Panic(m) => {
            flag(st, ID, ("character-rejected".into(), format!("automatic mode build of {} panicked: {m}", adapter::short_hex(&cfg.input))), &jj, false);
            return;
        }
        other => {
            flag(st, ID, ("no-symbol".into(), format!("a symbol exists (v{}), crate returned {}", exp.version, other.describe())), &jj, false);
            return;
        }
    };
    let got = qr.mode.map(adapter::mode_no);
    if got != Some(want) {
        flag(
            st,
            ID,
            ("wrong-mode".into(), format!("input {} is class {}, automatic mode chose {:?}", adapter::short_hex(&cfg.input), tables::MODE_NAMES[want], got.map(|g| tables::MODE_NAMES[g]))),
            &jj,
            false,
        );
        return;
    }
    let m = adapter::matrix_of(&qr);
    match symbol::check_roundtrip(&m, &cfg.input) {
        Ok(dec) => {
            if dec.parsed.segments[0].mode != want {
                flag(st, ID, ("mode-indicator".into(), format!("mode indicator in the symbol says {}, class is {}", tables::MODE_NAMES[dec.parsed.segments[0].mode], tables::MODE_NAMES[want])), &jj, false);
                return;
            }
        }
        Err(v) => {
            flag(st, ID, (format!("altered/{}", v.0), v.1), &jj, false);
            return;
        }
    }
    st.count(&format!("mode_{}", tables::MODE_NAMES[want]), 1);
    st.reach("classes", want as u64);
    if job.fam == FAMS[0] || job.fam == FAMS[2] {
        for &b in &cfg.input {
            st.reach("byte_values_seen", b as u64);
        }
    }
    if job.fam == FAMS[1] {
        st.count("class_patterns", 1);
    }
    st.distinct(oracle::rng::fnv(&cfg.input));
    st.sample(7919, || json!({"input_hex": adapter::short_hex(&cfg.input), "class": tables::MODE_NAMES[want], "mode_chosen": tables::MODE_NAMES[want]}));
}

pub fn run(ctx: &Ctx) -> Report {
    let jobs = jobs(ctx);
    let st = pool::run(&jobs, ctx.remaining(), |st, job, _| observe(ctx, st, job));
    let mut rep = Report::new(
        st,
        "every job rotates through the eight combinations of {version pinned, level given, mask forced} (the decision may depend on none of them); jobs = all 256 byte values at every position of strings of length 1..8 over digit / alphanumeric / other backgrounds (27,648), all 3^L class patterns for L<=8 with two representative characters per class (19,682), all 256^2 two-byte strings (65,536), strings in which every byte value of the highest class present occurs exactly 255 / 256 / 257 / 512 / 768 times, every ordered pair (character of the 45-set, any byte) adjacent at rotating offsets of an aligned 16-byte block inside strings of 17-40 characters (23,040; thorough: all 16 offsets), in the thorough tier ALL 256^3 three-byte strings (16,777,216), random strings of length <=1200 with one arbitrary byte planted at a random position, the dictionary prefix sweep, token strings, and edit sessions (a digits+alphanumerics+bytes text deleted from the end and typed back character by character, then edited in the middle, every intermediate text built on the same thread); every build uses automatic mode; observed: QRCode.mode == oracle class (45-character set spelled out independently), the mode indicator decoded from the symbol, and the reference decode equals the input byte for byte; distinct key = payload hash; non-trivial = every distinct string",
    );
    rep.exhaustive = Some(true);
    rep.expected_sets = vec![("classes", 3), ("byte_values_seen", 256)];
    rep.required_sets = vec![("classes", 3), ("byte_values_seen", 256)];
    rep.min_evaluations = 100_000;
    rep.assumptions = vec!["exhaustive refers to the enumerated short-string families; long strings are sampled".into()];
    rep
}

pub fn replay(ctx: &Ctx, job: &serde_json::Value) -> Option<Stats> {
    let job = Job::from_json(job, &FAMS)?;
    let mut st = Stats::new();
    observe(ctx, &mut st, &job);
    Some(st)
}
