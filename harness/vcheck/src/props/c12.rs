//! C12 — SVG output is well-formed and draws exactly the dark modules.

use crate::adapter::{self, Outcome};
use crate::fw::{Ctx, Report};
use crate::job::{Job, GEN_COUNT};
use crate::pool;
use crate::render::{self, Spec};
use crate::stats::Stats;
use crate::svgcheck;
use oracle::rng::{mix, Rng};
use serde_json::{json, Value};

pub const ID: &str = "C12";
pub const FAMS: [&str; 3] = ["svg-program", "image-string", "exact-dark-count"];

#[derive(Clone, Debug)]
pub struct RJob {
    pub job: Job,
    pub spec: Spec,
}

impl RJob {
    pub fn to_json(&self) -> Value {
        let mut v = self.job.to_json();
        v["spec"] = self.spec.to_json();
        v
    }
    pub fn from_json(v: &Value, fams: &[&'static str]) -> Option<RJob> {
        Some(RJob { job: Job::from_json(v, fams)?, spec: Spec::from_json(v.get("spec")?)? })
    }
}

pub fn jobs(ctx: &Ctx) -> Vec<RJob> {
    let versions: Vec<usize> = ctx.tier.pick(vec![1, 2, 6, 7, 14, 21, 27, 40], (1..=40).collect());
    let per = ctx.tier.pick(180, ctx.scale(1500));
    let mut out = Vec::new();
    let mut k = 0u64;
    for &v in &versions {
        let per_v = if v >= 21 { per / 3 } else { per };
        for i in 0..per_v {
            k += 1;
            let mut rng = Rng::new(mix(ctx.seed, k));
            let level = rng.below(4);
            let class = rng.below(3);
            let cap = ctx.caps.cap(v, level, class);
            let job = Job {
                fam: if i % 3 == 0 { FAMS[1] } else { FAMS[0] },
                class,
                mode: Some(class),
                level: Some(level),
                version: Some(v),
                mask: if rng.chance(1, 2) { Some(rng.below(8)) } else { None },
                len: rng.below(cap + 1),
                gen: rng.below(GEN_COUNT),
                seed: mix(ctx.seed, k ^ 0x55),
                ..Default::default()
            };
            let size = 17 + 4 * v;
            let mut spec = render::random_svg_spec(&mut rng, size, true);
            if i % 3 == 0 && spec.image.is_none() {
                // two in three are the ordinary strings; the rest are references as they come out of a file or a MIME
                // encoder (wrapped base64 with LF / CR LF / CR, a trailing line end, TABs, surrounding blanks)
                spec.image = Some(render::random_image_string_raw(&mut rng));
            }
            if v >= 21 && spec.layers.len() > 2 {
                spec.layers.truncate(2);
            }
            out.push(RJob { job, spec });
        }
    }
    // symbols whose number of dark modules is exactly a multiple of 4096 / a power of two (found by search, craft.rs):
    // writers that work in blocks of sub-paths meet their boundaries here
    for (i, (v, dk)) in Job::dark_count_cells().into_iter().enumerate() {
        if ctx.tier == crate::fw::Tier::Quick && v > 27 && i % 2 == 1 {
            continue;
        }
        k += 1;
        let mut rng = Rng::new(mix(ctx.seed, k ^ 0xda));
        let job = Job::dark_count(FAMS[2], dk, v, rng.below(2), rng.below(8), mix(ctx.seed, k));
        let mut spec = render::random_svg_spec(&mut rng, 17 + 4 * v, false);
        spec.layers.truncate(2);
        out.push(RJob { job, spec });
    }
    out
}

impl RJob {
    /// jobs whose payload is found by search get it here, once, on the worker thread
    pub fn materialise(&self, st: &mut Stats) -> Option<RJob> {
        match self.job.materialise() {
            Some(job) => {
                if self.job.aux[3] == crate::job::CRAFT_DARK {
                    st.count("symbols_with_an_exact_dark_module_count", 1);
                }
                Some(RJob { job, spec: self.spec.clone() })
            }
            None => {
                st.count("dark_count_searches_without_result", 1);
                None
            }
        }
    }
}

pub fn observe(_ctx: &Ctx, st: &mut Stats, rj: &RJob) {
    let owned = match rj.materialise(st) {
        Some(r) => r,
        None => return,
    };
    let rj = &owned;
    let cfg = rj.job.config();
    st.eval();
    let qr = match adapter::build(&cfg) {
        Outcome::Ok(q) => q,
        other => {
            st.violation(ID, "no-symbol", format!("crate returned {} [{}]", other.describe(), cfg.describe()), rj.to_json());
            return;
        }
    };
    // a quarter of the symbols are also rendered from a hand-assembled copy (QRCode::default(size) + the same
    // modules, no version / level / mask / mode fields): the document must be the same
    if rj.job.seed % 4 == 2 {
        let h = adapter::hand_assembled(&qr);
        match adapter::guarded(|| (rj.spec.svg_builder().to_str(&h), rj.spec.svg_builder().to_str(&qr))) {
            Ok((a, b)) => {
                if a != b {
                    let at = a.bytes().zip(b.bytes()).position(|(x, y)| x != y).unwrap_or(a.len().min(b.len()));
                    st.violation(ID, "hand-assembled-symbol-renders-differently", format!("a QRCode assembled from size and modules alone (no version/level/mask/mode fields) renders differently from the built one at byte {at}: ...{}... vs ...{}... [spec {}]", a.get(at.saturating_sub(30)..(at + 40).min(a.len())).unwrap_or(""), b.get(at.saturating_sub(30)..(at + 40).min(b.len())).unwrap_or(""), rj.spec.describe()), rj.to_json());
                    return;
                }
                st.count("hand_assembled_symbols_rendered_identically", 1);
            }
            Err(p) => {
                st.violation(ID, "render-panic", format!("rendering a hand-assembled QRCode panicked: {p}"), rj.to_json());
                return;
            }
        }
    }
    let svg = match adapter::guarded(|| rj.spec.svg_builder_for(Some(&qr)).to_str(&qr)) {
        Ok(s) => s,
        Err(p) => {
            st.violation(ID, "render-panic", format!("to_str panicked: {p} [{}]", rj.spec.describe()), rj.to_json());
            return;
        }
    };
    st.count("svg_bytes_parsed", svg.len() as u64);
    // the document as a user gets it through `to_file`: every eighth job writes it over an existing, LONGER document
    // (the same symbol with a wide margin) and reads it back - the file must hold exactly this document
    if rj.job.seed % 8 == 5 {
        let dir = std::env::var_os("VCHECK_TARGET_DIR").map(std::path::PathBuf::from).unwrap_or_else(|| _ctx.root.join("harness/target")).join("scratch");
        let _ = std::fs::create_dir_all(&dir);
        let path = dir.join(format!("c12-{}-{:x}.svg", std::process::id(), rj.job.seed));
        let mut longer = rj.spec.clone();
        longer.margin = Some(rj.spec.margin_value() + 40);
        longer.layers.push((1, None));
        let written = adapter::guarded(|| {
            let a = longer.svg_builder().to_file(&qr, path.to_str().unwrap_or("c12.svg")).is_ok();
            let b = rj.spec.svg_builder().to_file(&qr, path.to_str().unwrap_or("c12.svg")).is_ok();
            (a, b)
        });
        let back = std::fs::read(&path);
        let _ = std::fs::remove_file(&path);
        match (written, back) {
            (Ok((true, true)), Ok(bytes)) => {
                if bytes != svg.as_bytes() {
                    st.violation(ID, "file-differs-from-document", format!("to_file over an existing longer document left {} bytes, to_str gives {} (the file is what a user opens: it must be this well-formed document and nothing else) [spec: {}]", bytes.len(), svg.len(), rj.spec.describe()), rj.to_json());
                    return;
                }
                st.count("documents_written_over_a_longer_file_and_read_back", 1);
            }
            (Err(p), _) => {
                st.violation(ID, "render-panic", format!("to_file panicked: {p} [{}]", rj.spec.describe()), rj.to_json());
                return;
            }
            (w, b) => st.inconclusive(format!("file route: cannot write / read back {} ({w:?}, {:?})", path.display(), b.map(|x| x.len()))),
        }
    }
    match svgcheck::check_svg(&svg, &qr, &rj.spec) {
        Ok(c) => {
            st.count("subpaths_matched_to_dark_modules", c.subpaths);
            st.count("layers_checked", c.layers);
            st.count("image_elements_checked", c.image_elements);
            st.count("layers_split_over_several_path_elements", c.split_layers);
            st.reach("versions", qr.version.map(adapter::version_no).unwrap_or(0) as u64);
            for (s, _) in &rj.spec.layers {
                st.reach("shapes", *s as u64);
            }
            st.reach("layer_counts", rj.spec.layers.len() as u64);
            st.reach("margins", rj.spec.margin_value().min(200) as u64);
            if let Some(i) = &rj.spec.image {
                for ch in ['&', '<', '>', '"', '\''] {
                    if i.contains(ch) {
                        st.reach("xml_special_chars_in_image_string", ch as u64);
                    }
                }
                if !i.is_ascii() {
                    st.count("non_ascii_image_strings", 1);
                }
                if i.contains(['\t', '\n', '\r']) {
                    st.count("image_strings_with_tab_or_line_end", 1);
                    if i.contains(";base64,") || i.contains(";BASE64,") {
                        st.count("line_wrapped_base64_image_strings", 1);
                    }
                }
            }
            st.distinct(mix(rj.job.key(&cfg.input), oracle::rng::fnv(rj.spec.describe().as_bytes())));
            st.sample(61, || json!({"qr": cfg.describe(), "spec": rj.spec.to_json(), "svg_len": svg.len(), "subpaths": c.subpaths}));
        }
        Err(v) => {
            st.violation(ID, &v.0, format!("{} [qr: {}; spec: {}]", v.1, cfg.describe(), rj.spec.describe()), rj.to_json());
            return;
        }
    }
    // "every matrix": a third of the symbols are then edited by hand (QRCode.data is public: a few modules toggled, some
    // of them in the leftmost / topmost / last columns and rows) and rendered again with the same builder on the same
    // thread; the document must follow the edited matrix
    if rj.job.seed % 3 == 1 {
        let (edited, edits) = adapter::edited_by_hand(&qr, rj.job.seed);
        let svg2 = match adapter::guarded(|| rj.spec.svg_builder().to_str(&edited)) {
            Ok(s) => s,
            Err(p) => {
                st.violation(ID, "render-panic", format!("to_str panicked on a hand-edited matrix: {p}"), rj.to_json());
                return;
            }
        };
        match svgcheck::check_svg(&svg2, &edited, &rj.spec) {
            Ok(_) => st.count("hand_edited_matrices_rendered_right_after_the_original", 1),
            Err(v) => st.violation(ID, &format!("edited-matrix/{}", v.0), format!("{} (the same builder had just rendered the unedited symbol on this thread; edited by hand: {edits}) [qr: {}; spec: {}]", v.1, cfg.describe(), rj.spec.describe()), rj.to_json()),
        }
    }
}

pub fn run(ctx: &Ctx) -> Report {
    let jobs = jobs(ctx);
    let st = pool::run(&jobs, ctx.remaining(), |st, job, _| observe(ctx, st, job));
    let mut rep = Report::new(
        st,
        "jobs = versions {1,2,6,7,14,21,27,40} (thorough: all 40) x random builder programs: margin in {default,0,1,4,7,size,random}, 0..5 shape()/shape_color() calls over the 6 built-in shapes with repeats, colours as [u8;3], [u8;4] (alpha 0,1,127,254,255), #hex and named strings, optional image string from URLs / data URIs / paths / strings with & < > \" ' / non-ASCII; the document is parsed by a strict XML parser, then: viewBox and background rect = size+2*margin, background/layer fills, one <path> per layer in call order, every sub-path's bounding box (own path interpreter incl. arcs) inside exactly one unit cell with extent >= 0.3, the multiset of cells == dark modules shifted by margin (none on light modules or the quiet zone), symbols whose dark-module count is exactly 256 .. 16384 (powers of two, multiples of 4096; found by an oracle-judged search); a layer may be split over several consecutive <path> elements; exactly one <image> whose parsed href equals the configured string, TAB/LF/CR allowed to read back as blanks (none otherwise); one image string in nine is a line-wrapped base64 data URI or carries TAB / line ends / surrounding blanks; distinct key = (qr options, payload hash, spec); every document non-trivial",
    );
    rep.expected_sets = vec![("shapes", 6), ("layer_counts", 6), ("xml_special_chars_in_image_string", 5)];
    rep.required_sets = vec![("shapes", 6), ("xml_special_chars_in_image_string", 5)];
    rep.min_evaluations = 800;
    rep.assumptions = vec![
        "Shape::Command (user callback) is outside the property's quantifier".into(),
        "image strings are drawn from characters legal in XML 1.0; a TAB/LF/CR in the configured string may come back as a blank (attribute-value normalisation of the literal character) or as itself (character reference), never dropped".into(),
        "colour strings are hex or CSS names (no XML-special characters); the property speaks about array colours and the image string only".into(),
    ];
    rep
}

pub fn replay(ctx: &Ctx, job: &Value) -> Option<Stats> {
    let rj = RJob::from_json(job, &FAMS)?;
    let mut st = Stats::new();
    observe(ctx, &mut st, &rj);
    Some(st)
}
