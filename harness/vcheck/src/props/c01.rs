//! C01 — every symbol built decodes back to exactly the input bytes.

use crate::adapter::{self, Outcome};
use crate::cells::{boundary_lengths, cell_id, native_range, rotate_mask};
use crate::fw::{flag, Ctx, Report, Tier};
use crate::job::{Job, GEN_COUNT};
use crate::pool;
use crate::stats::Stats;
use crate::symbol;
use oracle::rng::{mix, Rng};
use serde_json::json;

pub const ID: &str = "C01";
pub const FAMS: [&str; 9] = ["boundary", "auto-version", "every-length", "random-length", "real-world-prefixes", "crafted", "forced-mode-outside-alphabet", "power-of-two-lengths", "no-level-given-at-other-levels-boundaries"];

pub fn jobs(ctx: &Ctx) -> Vec<Job> {
    let caps = &ctx.caps;
    let mut jobs = Vec::new();
    let mut k = 0usize;
    let mut push = |jobs: &mut Vec<Job>, fam, class, mode, level, version, len, k: &mut usize| {
        *k += 1;
        jobs.push(Job {
            fam,
            class,
            mode,
            level,
            version,
            mask: rotate_mask(*k + version.unwrap_or(0)),
            len,
            gen: *k % GEN_COUNT,
            seed: mix(ctx.seed, *k as u64),
            ..Default::default()
        });
    };
    for v in 1..=40usize {
        for level in 0..4usize {
            for m in 0..4usize {
                // m == 3: automatic mode, payload class rotates
                let class = if m < 3 { m } else { (v + level) % 3 };
                let mode = if m < 3 { Some(m) } else { None };
                for len in boundary_lengths(caps, v, level, class) {
                    push(&mut jobs, FAMS[0], class, mode, Some(level), Some(v), len, &mut k);
                }
                // automatic version: only lengths for which v is the smallest version
                let (lo, hi) = native_range(caps, v, level, class);
                for len in [lo, hi] {
                    let lvl = if level == 2 && m % 2 == 1 { None } else { Some(level) };
                    push(&mut jobs, FAMS[1], class, mode, lvl, None, len, &mut k);
                }
            }
        }
    }
    // no level given (the default, Q, applies) and the version forced, at lengths that are boundaries of the OTHER
    // levels in that version: capacity of H and M, one below and one above - whatever a build does with the room that
    // is left over in a pinned version, the symbol must still decode to the input
    for v in 1..=40usize {
        for m in 0..4usize {
            let class = if m < 3 { m } else { v % 3 };
            let mode = if m < 3 { Some(m) } else { None };
            let q = caps.cap(v, oracle::tables::Q, class);
            let mut lens = Vec::new();
            for level in [oracle::tables::H, oracle::tables::M, oracle::tables::Q] {
                let c = caps.cap(v, level, class);
                lens.extend([c.saturating_sub(1), c, c + 1]);
            }
            lens.retain(|&l| l <= q);
            lens.sort();
            lens.dedup();
            for len in lens {
                push(&mut jobs, FAMS[8], class, mode, None, Some(v), len, &mut k);
            }
        }
    }
    {
        // a few random lengths in every (version, level, mode) cell, both tiers
        let mut rng = Rng::new(ctx.seed ^ 0x1c01);
        for v in 1..=40usize {
            for level in 0..4usize {
                for m in 0..4usize {
                    let class = if m < 3 { m } else { rng.below(3) };
                    let mode = if m < 3 { Some(m) } else { None };
                    let cap = caps.cap(v, level, class);
                    for _ in 0..ctx.tier.pick(6, 6) {
                        let len = rng.below(cap + 1);
                        push(&mut jobs, FAMS[3], class, mode, Some(level), Some(v), len, &mut k);
                    }
                }
            }
        }
    }
    // lengths around every power of two (2^k - 1, 2^k, 2^k + 1), automatic and forced mode, smallest version and 40
    for m in 0..4usize {
        for level in 0..4usize {
            for e in 3..=12u32 {
                for d in [-1i64, 0, 1] {
                    let class = if m < 3 { m } else { (e as usize + level) % 3 };
                    let len = ((1i64 << e) + d) as usize;
                    if len > caps.cap(40, level, class) {
                        continue;
                    }
                    push(&mut jobs, FAMS[7], class, if m < 3 { Some(m) } else { None }, Some(level), if (e + level as u32) % 2 == 0 { None } else { Some(40) }, len, &mut k);
                }
            }
        }
    }
    // what people put into QR codes, and byte sequences that mean something to some layer (byte order
    // marks, GS1/AIM escapes, control characters, multi-byte text): every dictionary prefix alone and with
    // tails, automatic and forced mode, automatic version
    for (i, (class, payload)) in crate::job::prefix_sweep(ctx.seed).into_iter().enumerate() {
        k += 1;
        let level = i % 4;
        let mode = match i % 3 {
            0 => None,
            1 => Some(class),
            _ => Some(2),
        };
        if mode.is_some() {
            // ... and always in automatic mode as well
            jobs.push(Job { fam: FAMS[4], class, mode: None, level: Some((level + 1) % 4), version: None, mask: rotate_mask(k + 1), len: payload.len(), payload: Some(payload.clone()), seed: mix(ctx.seed, k as u64 ^ 0xa), ..Default::default() });
        }
        jobs.push(Job { fam: FAMS[4], class, mode, level: if i % 5 == 0 { None } else { Some(level) }, version: None, mask: rotate_mask(k), len: payload.len(), payload: Some(payload), seed: mix(ctx.seed, k as u64), ..Default::default() });
    }
    // crafted byte payloads (craft.rs): data area equal to mask patterns, uniform, stripes; per-block shapes
    for v in ctx.tier.pick(vec![1usize, 2, 5, 9, 10, 14, 22, 26, 27, 33, 40], (1..=40).collect()) {
        for level in 0..4usize {
            for t in 0..crate::craft::TARGET_COUNT {
                k += 1;
                if ctx.tier == Tier::Quick && (v + level + t) % 3 != 0 {
                    continue;
                }
                jobs.push(Job::crafted(FAMS[5], crate::job::CRAFT_TARGET, t, v, level, rotate_mask(k), mix(ctx.seed, k as u64)));
            }
            for sh in 0..crate::craft::CW_SHAPE_COUNT {
                k += 1;
                jobs.push(Job::crafted(FAMS[5], crate::job::CRAFT_SHAPE, sh, v, level, rotate_mask(k), mix(ctx.seed, k as u64)));
            }
        }
    }
    // a forced mode whose alphabet does NOT contain the input: the crate documents an assertion failure there,
    // which is outside the property; but IF a symbol is returned it must decode to the input like any other
    {
        let mut rng = Rng::new(ctx.seed ^ 0xf01);
        for i in 0..ctx.tier.pick(600, 20_000) {
            k += 1;
            let mode = i % 2; // Numeric or Alphanumeric forced
            let len = 1 + rng.below(40);
            let mut p = crate::job::gen_payload(mode, len, rng.below(GEN_COUNT), rng.next_u64());
            let foreign: &[u8] = if mode == 0 { b"A:/ az,\x00\xff-+" } else { b"abcxyz,;!_\x00\x7f\x80\xff@#" };
            for _ in 0..1 + rng.below(2) {
                let at = rng.below(p.len());
                p[at] = *rng.pick(foreign);
            }
            jobs.push(Job { fam: FAMS[6], class: 2, mode: Some(mode), level: Some(rng.below(4)), version: if rng.chance(1, 2) { None } else { Some(1 + rng.below(10)) }, mask: rotate_mask(k), len: p.len(), payload: Some(p), seed: mix(ctx.seed, k as u64), ..Default::default() });
        }
    }
    if ctx.tier == Tier::Thorough {
        let mut rng = Rng::new(ctx.seed ^ 0xc01);
        for v in 1..=40usize {
            for level in 0..4usize {
                for m in 0..4usize {
                    let class = if m < 3 { m } else { rng.below(3) };
                    let mode = if m < 3 { Some(m) } else { None };
                    let cap = caps.cap(v, level, class);
                    if v <= 6 {
                        for len in 0..=cap {
                            push(&mut jobs, FAMS[2], class, mode, Some(level), Some(v), len, &mut k);
                        }
                    } else {
                        for _ in 0..ctx.scale(1200) {
                            let len = rng.below(cap + 1);
                            let version = if rng.chance(1, 3) { None } else { Some(v) };
                            let len = if version.is_none() {
                                let (lo, hi) = native_range(caps, v, level, class);
                                rng.range(lo, hi)
                            } else {
                                len
                            };
                            push(&mut jobs, FAMS[3], class, mode, Some(level), version, len, &mut k);
                        }
                    }
                }
            }
        }
    }
    jobs
}

/// family "forced-mode-outside-alphabet": no symbol is demanded, but a returned one must decode to the input
fn observe_foreign(st: &mut Stats, job: &Job) {
    let cfg = job.config();
    match adapter::build(&cfg) {
        Outcome::Ok(qr) => {
            let m = adapter::matrix_of(&qr);
            match symbol::check_roundtrip(&m, &cfg.input) {
                Ok(_) => st.count("foreign_input_symbols_that_round_trip", 1),
                Err(v) => flag(st, ID, (format!("returned-symbol-{}", v.0), format!("the forced mode's alphabet does not contain the input, yet a symbol was returned, and it does not decode to the input: {}", v.1)), job, false),
            }
        }
        _ => {
            st.count("foreign_input_refused", 1);
            st.distinct(job.key(&cfg.input));
        }
    }
}

pub fn observe(ctx: &Ctx, st: &mut Stats, job: &Job) {
    let cfg = job.config();
    st.eval();
    if job.fam == FAMS[6] {
        return observe_foreign(st, job);
    }
    if job.fam == FAMS[4] {
        st.count("real_world_prefix_payloads", 1);
    } else if job.fam == FAMS[5] {
        st.count("crafted_payloads", 1);
    }
    let exp = match symbol::expect(&cfg, &ctx.caps) {
        Ok(e) => e,
        Err(why) => {
            st.inconclusive(format!("workload bug: job outside the quantifier ({why}): {}", cfg.describe()));
            return;
        }
    };
    let qr = match adapter::build(&cfg) {
        Outcome::Ok(q) => q,
        other => {
            flag(st, ID, ("no-symbol".into(), format!("ISO capacity says a symbol exists (v{}), crate returned {}", exp.version, other.describe())), job, false);
            return;
        }
    };
    let m = adapter::matrix_of(&qr);
    st.count("modules_read", (m.size * m.size) as u64);
    match symbol::check_roundtrip(&m, &cfg.input) {
        Ok(dec) => {
            st.count("bytes_round_tripped", cfg.input.len() as u64);
            st.count("codewords_read", dec.readout.codewords.len() as u64);
            if dec.corrected > 0 {
                st.count("symbols_needing_rs_correction", 1);
            }
            st.reach("version_level", cell_id(dec.readout.version, dec.readout.level));
            st.reach("version_mask", (dec.readout.version * 8 + dec.readout.mask) as u64);
            st.reach("class_mode", (((dec.readout.version > 9) as usize + (dec.readout.version > 26) as usize) * 3 + dec.parsed.segments[0].mode) as u64);
            st.reach("forced_bits", (cfg.mode.is_some() as u64) | (cfg.version.is_some() as u64) << 1 | (cfg.mask.is_some() as u64) << 2 | (cfg.level.is_some() as u64) << 3);
            if !cfg.input.is_empty() {
                st.distinct(job.key(&cfg.input));
            }
            st.sample(97, || {
                json!({"input": adapter::short_hex(&cfg.input), "options": cfg.describe(),
                       "decoded_version": dec.readout.version, "decoded_level": dec.readout.level,
                       "decoded_mask": dec.readout.mask, "decoded_len": dec.parsed.segments[0].bytes.len()})
            });
        }
        Err(v) => {
            let mask = qr.mask.map(adapter::mask_no).unwrap_or(0);
            let agrees = symbol::second_opinion_agrees(&m, exp.mode, exp.version, exp.level, mask, &cfg.input);
            flag(st, ID, v, job, agrees);
        }
    }
}

pub fn run(ctx: &Ctx) -> Report {
    let jobs = jobs(ctx);
    let st = pool::run(&jobs, ctx.remaining(), |st, job, i| {
        observe(ctx, st, job);
        // every fifth job is followed, on the same thread, by a sibling: same payload, one option changed
        if i % 5 == 0 {
            if let Some(sib) = job.sibling(&ctx.caps) {
                let before = st.violations.len();
                observe(ctx, st, &sib);
                st.count("sibling_builds_same_payload_other_option", 1);
                for v in &mut st.violations[before..] {
                    v.detail = format!("{} (sibling run: same payload as the job before it on this thread, one option changed; the fault may depend on that history)", v.detail);
                }
            }
        }
    });
    let mut rep = Report::new(
        st,
        "jobs = (version x level x forced mode|auto) x boundary lengths {0,1,cap(v-1)+1,cap-1,cap} with forced and automatic version + no level given with the version forced at the capacities (-1, +0, +1) of levels H, M and Q in that version, mask rotating over 0..7 and automatic, payload generator rotating over 17 generators (thorough: every length for v<=6, random lengths above) + every entry of a dictionary of real-world prefixes and magic byte sequences (URL schemes in both cases, WIFI:/vCard/MECARD, byte order marks, GS1/AIM escapes, control bytes, multi-byte text) alone and with tails + crafted byte payloads (data area equal to a mask pattern / uniform / stripes; blocks of padding pattern / zeros / identical blocks) + inputs outside the forced mode's alphabet (a symbol, if returned, must still decode to the input); each execution builds through QRBuilder and decodes the module values with the oracle reference decoder; distinct key = (mode,level,version,mask options, len, payload hash); non-trivial = non-empty payload",
    );
    rep.expected_sets = vec![("version_level", 160), ("version_mask", 320), ("class_mode", 9), ("forced_bits", 16)];
    rep.required_sets = vec![("version_level", 160), ("version_mask", 320), ("class_mode", 9)];
    rep.min_evaluations = 3000;
    rep.assumptions = vec![
        "oracle decoder = my reading of ISO/IEC 18004:2015, validated each run against symbols from the independent qrcode crate".into(),
        "payload contents are sampled (17 generators + dictionary + crafted), configurations at the listed boundaries are enumerated".into(),
    ];
    rep
}

pub fn replay(ctx: &Ctx, job: &serde_json::Value) -> Option<Stats> {
    let job = Job::from_json(job, &FAMS)?;
    let mut st = Stats::new();
    observe(ctx, &mut st, &job);
    Some(st)
}
