//! C06 — data codewords follow the ISO bit-stream encoding bit for bit.

use crate::adapter::{self, Outcome};
use crate::cells::{cell_id, rotate_mask};
use crate::fw::{flag, Ctx, Report, Tier};
use crate::job::{Job, GEN_COUNT};
use crate::pool;
use crate::stats::Stats;
use crate::symbol;
use oracle::decode;
use oracle::rng::{mix, Rng};
use oracle::tables;
use serde_json::json;

pub const ID: &str = "C06";
pub const FAMS: [&str; 9] = ["spare-bits", "residues", "class-edge", "every-length", "real-world-prefixes", "crafted", "power-of-two-lengths", "tight-in-smaller-version", "near-alphabet-automatic-mode"];

fn spare(v: usize, level: usize, mode: usize, len: usize) -> isize {
    8 * tables::layout(v, level).data_codewords as isize - (4 + tables::cci_bits(v, mode) + tables::payload_bits(mode, len)) as isize
}

pub fn jobs(ctx: &Ctx) -> Vec<Job> {
    let caps = &ctx.caps;
    let mut jobs: Vec<Job> = Vec::new();
    let mut k = 0usize;
    let mut push = |jobs: &mut Vec<Job>, fam, mode: usize, level, v, len, k: &mut usize| {
        *k += 1;
        jobs.push(Job {
            fam,
            class: mode,
            mode: Some(mode),
            level: Some(level),
            version: Some(v),
            mask: rotate_mask(*k),
            len,
            gen: *k % GEN_COUNT,
            seed: mix(ctx.seed, *k as u64),
            ..Default::default()
        });
    };
    let mut rng = Rng::new(ctx.seed ^ 0xc06);
    for v in 1..=40usize {
        for level in 0..4usize {
            for mode in 0..3usize {
                let cap = caps.cap(v, level, mode);
                // lengths that leave 0..=12 spare bits (terminator truncation, bit padding, first pad byte)
                let mut len = cap as isize;
                while len >= 0 && spare(v, level, mode, len as usize) <= 12 {
                    push(&mut jobs, FAMS[0], mode, level, v, len as usize, &mut k);
                    len -= 1;
                }
                // all residues of the group size, the empty segment, a mid length
                for l in [0usize, 1, 2, 3, 4, 5, cap / 2, cap / 2 + 1, cap / 2 + 2] {
                    if l <= cap {
                        push(&mut jobs, FAMS[1], mode, level, v, l, &mut k);
                    }
                }
                // count-width class edges get extra lengths
                for _ in 0..4 {
                    push(&mut jobs, FAMS[1], mode, level, v, rng.below(cap + 1), &mut k);
                }
                if [9usize, 10, 26, 27].contains(&v) {
                    for _ in 0..20 {
                        push(&mut jobs, FAMS[2], mode, level, v, rng.below(cap + 1), &mut k);
                    }
                }
                if ctx.tier == Tier::Thorough {
                    let every = v <= 10 || (26..=28).contains(&v) || v >= 39;
                    if every {
                        for l in 0..=cap {
                            push(&mut jobs, FAMS[3], mode, level, v, l, &mut k);
                        }
                    } else {
                        for _ in 0..ctx.scale(500) {
                            push(&mut jobs, FAMS[3], mode, level, v, rng.below(cap + 1), &mut k);
                        }
                    }
                }
            }
        }
    }
    // a payload that leaves 0..5 spare bits in its SMALLEST version, built in a forced LARGER version (next one, three
    // up, 40): terminator and padding must follow the version actually used
    for vm in 1..40usize {
        for level in 0..4usize {
            for mode in 0..3usize {
                let cap = caps.cap(vm, level, mode);
                let mut len = cap as isize;
                while len >= 0 && spare(vm, level, mode, len as usize) <= 5 {
                    if caps.vmin(level, mode, len as usize) == Some(vm) {
                        for f in [vm + 1, (vm + 3).min(40), 40] {
                            if (vm + level + mode + f) % 3 == 0 || ctx.tier == Tier::Thorough {
                                push(&mut jobs, FAMS[7], mode, level, f, len as usize, &mut k);
                            }
                        }
                    }
                    len -= 1;
                }
            }
        }
    }
    // lengths around every power of two (counts that fill a field exactly, 2^k - 1, 2^k, 2^k + 1): smallest version
    // and version 40
    for mode in 0..3usize {
        for level in 0..4usize {
            for e in 3..=12u32 {
                for d in [-1i64, 0, 1] {
                    let len = ((1i64 << e) + d) as usize;
                    if len > caps.cap(40, level, mode) {
                        continue;
                    }
                    for version in [None, Some(40usize), caps.vmin(level, mode, len).map(|v| (v + 1).min(40))] {
                        k += 1;
                        jobs.push(Job { fam: FAMS[6], class: mode, mode: Some(mode), level: Some(level), version, mask: rotate_mask(k), len, gen: k % GEN_COUNT, seed: mix(ctx.seed, k as u64), ..Default::default() });
                    }
                }
            }
        }
    }
    // AUTOMATIC mode on strings that sit right next to a mode's alphabet: a digit or alphanumeric background with
    // one or two neighbours of the 45-character set planted (ASCII punctuation that is NOT in it, lower case, 0x80),
    // and pure backgrounds; the bit stream must be the ISO encoding in the mode the ORACLE's classification gives
    {
        let mut rng2 = Rng::new(ctx.seed ^ 0x6a17);
        const NEIGHBOURS: &[u8] = b"!\"#&'(),;<=>?@[\\]^_`{|}~az\x80";
        for i in 0..ctx.tier.pick(900usize, 20_000) {
            k += 1;
            let bg = i % 2; // digits / alphanumerics
            let len = 1 + rng2.below(if i % 9 == 0 { 400 } else { 40 });
            let mut p = crate::job::gen_payload(bg, len, rng2.below(GEN_COUNT), rng2.next_u64());
            for _ in 0..rng2.below(3) {
                let at = rng2.below(p.len());
                p[at] = *rng2.pick(NEIGHBOURS);
            }
            let class = tables::classify(&p);
            jobs.push(Job { fam: FAMS[8], class, mode: None, level: Some(rng2.below(4)), version: None, mask: rotate_mask(k), len: p.len(), payload: Some(p), seed: mix(ctx.seed, k as u64), ..Default::default() });
        }
    }
    // dictionary of real-world prefixes / magic byte sequences, alone and with tails (automatic version;
    // the mode is forced to the payload's own class or to Byte)
    for (i, (class, payload)) in crate::job::prefix_sweep(ctx.seed).into_iter().enumerate() {
        k += 1;
        for mode in [class, 2] {
            if mode == 2 && class == 2 && i % 2 == 1 {
                continue;
            }
            jobs.push(Job { fam: FAMS[4], class, mode: Some(mode), level: Some((i + mode) % 4), version: None, mask: rotate_mask(k), len: payload.len(), payload: Some(payload.clone()), seed: mix(ctx.seed, k as u64), ..Default::default() });
        }
    }
    // crafted byte payloads: per-block codeword shapes and matrix targets (craft.rs)
    for v in ctx.tier.pick(vec![1usize, 3, 6, 9, 10, 13, 20, 26, 27, 31, 40], (1..=40).collect()) {
        for level in 0..4usize {
            for sh in 0..crate::craft::CW_SHAPE_COUNT {
                k += 1;
                jobs.push(Job::crafted(FAMS[5], crate::job::CRAFT_SHAPE, sh, v, level, rotate_mask(k), mix(ctx.seed, k as u64)));
            }
            for t in [0usize, 3, 9, 16, 17, 18, 22] {
                k += 1;
                jobs.push(Job::crafted(FAMS[5], crate::job::CRAFT_TARGET, t, v, level, rotate_mask(k), mix(ctx.seed, k as u64)));
            }
        }
    }
    jobs
}

pub fn observe(ctx: &Ctx, st: &mut Stats, job: &Job) {
    let cfg = job.config();
    st.eval();
    let exp = match symbol::expect(&cfg, &ctx.caps) {
        Ok(e) => e,
        Err(why) => {
            st.inconclusive(format!("workload bug ({why}): {}", cfg.describe()));
            return;
        }
    };
    let qr = match adapter::build(&cfg) {
        Outcome::Ok(q) => q,
        other => {
            flag(st, ID, ("no-symbol".into(), format!("a symbol exists (v{}), crate returned {}", exp.version, other.describe())), job, false);
            return;
        }
    };
    let m = adapter::matrix_of(&qr);
    let mask = qr.mask.map(adapter::mask_no).unwrap_or(0);
    let second = || symbol::second_opinion_agrees(&m, exp.mode, exp.version, exp.level, mask, &cfg.input);
    let ro = match decode::read(&m) {
        Ok(r) => r,
        Err(e) => {
            flag(st, ID, ("read-failed".into(), e), job, second());
            return;
        }
    };
    if ro.version != exp.version || ro.level != exp.level {
        flag(st, ID, ("readout-parameters".into(), format!("symbol reads as v{} level {}, expected v{} level {}", ro.version, ro.level, exp.version, exp.level)), job, second());
        return;
    }
    if let Err(v) = symbol::check_bitstream(&ro, exp.mode, &cfg.input) {
        flag(st, ID, v, job, second());
        return;
    }
    if job.fam == FAMS[4] {
        st.count("real_world_prefix_payloads", 1);
    } else if job.fam == FAMS[5] {
        st.count("crafted_payloads", 1);
    }
    let sp = spare(exp.version, exp.level, exp.mode, cfg.input.len());
    st.count("data_codewords_compared", ro.layout.data_codewords as u64);
    st.count("data_bits_compared", 8 * ro.layout.data_codewords as u64);
    st.reach("version_level", cell_id(exp.version, exp.level));
    st.reach("class_mode", (((exp.version > 9) as usize + (exp.version > 26) as usize) * 3 + exp.mode) as u64);
    if (0..=12).contains(&sp) {
        st.reach("spare_bits_0_to_12", sp as u64);
    }
    st.reach("mode_residue", (exp.mode * 4 + cfg.input.len() % [3, 2, 1][exp.mode]) as u64);
    let pads = (sp.max(0) as usize).saturating_sub(4) / 8;
    st.reach("pad_parity", (pads % 2 + 2 * (pads > 0) as usize) as u64);
    st.distinct(job.key(&cfg.input));
    st.sample(307, || json!({"options": cfg.describe(), "input": adapter::short_hex(&cfg.input), "spare_bits": sp, "data_codewords": ro.layout.data_codewords}));
}

pub fn run(ctx: &Ctx) -> Report {
    let jobs = jobs(ctx);
    let st = pool::run(&jobs, ctx.remaining(), |st, job, i| {
        observe(ctx, st, job);
        // every fifth job is followed, on the same thread, by a sibling: same payload, one option changed
        if i % 5 == 0 {
            if let Some(sib) = job.sibling(&ctx.caps) {
                let before = st.violations.len();
                observe(ctx, st, &sib);
                st.count("sibling_builds_same_payload_other_option", 1);
                for v in &mut st.violations[before..] {
                    v.detail = format!("{} (sibling run: same payload as the job before it on this thread, one option changed; the fault may depend on that history)", v.detail);
                }
            }
        }
    });
    let mut rep = Report::new(
        st,
        "jobs = every (version, level, mode) cell x {all lengths leaving 0..12 spare bits, lengths 0..5 and three mid lengths (all residues mod 3 / mod 2)}, 20 extra random lengths per cell at the count-width class edges (v9/10/26/27) (thorough: every length for v1-10, 26-28, 39-40, random elsewhere), 17 payload generators rotating, + lengths 2^k-1, 2^k, 2^k+1 (k = 3..12) at the smallest version, one above and version 40, + every entry of the dictionary of real-world prefixes and magic byte sequences (both URL-scheme cases, byte order marks, GS1/AIM escapes, control bytes, multi-byte text) alone and with tails in its own mode and in Byte mode + crafted byte payloads (blocks of padding pattern / zeros / identical blocks; data area equal to mask patterns / uniform); the data codewords recovered from the module values (unmask, zig-zag, de-interleave; no lenient parsing) are compared bit for bit with the oracle's strict ISO 7.4 encoder (mode indicator, count width, group packing, terminator min(4,rest), zero bits to the byte boundary, 0xEC/0x11 pads to capacity); distinct key = (options, len, payload hash); every case non-trivial (even the empty segment exercises terminator and pads)",
    );
    rep.expected_sets = vec![("version_level", 160), ("class_mode", 9), ("spare_bits_0_to_12", 13), ("mode_residue", 6), ("pad_parity", 3)];
    rep.required_sets = vec![("version_level", 160), ("class_mode", 9), ("spare_bits_0_to_12", 13), ("mode_residue", 6)];
    rep.min_evaluations = 4000;
    rep
}

pub fn replay(ctx: &Ctx, job: &serde_json::Value) -> Option<Stats> {
    let job = Job::from_json(job, &FAMS)?;
    let mut st = Stats::new();
    observe(ctx, &mut st, &job);
    Some(st)
}
