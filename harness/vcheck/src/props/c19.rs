//! C19 — file output is all-or-error. Level: fault_enumeration.
//! Every case runs in a child process (`vcheck c19-child`) so that a panic/abort is an exit
//! status and the LD_PRELOAD fault shim can be armed for that process only.

use crate::adapter::{self, Config, Outcome};
use crate::fw::{Ctx, Report};
use crate::pool;
use crate::render::Spec;
use crate::stats::Stats;
use fast_qr::convert::ConvertError;
use oracle::rng::{fnv, mix, Rng};
use serde_json::{json, Value};
use std::path::{Path, PathBuf};
use std::process::{Command, Stdio};

pub const ID: &str = "C19";

#[derive(Clone, Debug)]
pub struct Case {
    pub png: bool,
    pub version: usize,
    pub optset: usize,
    /// fault class
    pub fault: String,
    pub errno: i32,
    pub k: usize,
    pub chunk: usize,
    pub seed: u64,
}

impl Case {
    fn to_json(&self) -> Value {
        json!({"fam": "case", "png": self.png, "version": self.version, "optset": self.optset, "fault": self.fault, "errno": self.errno, "k": self.k, "chunk": self.chunk, "seed": self.seed.to_string()})
    }
    fn from_json(v: &Value) -> Option<Case> {
        Some(Case {
            png: v.get("png")?.as_bool()?,
            version: v.get("version")?.as_u64()? as usize,
            optset: v.get("optset")?.as_u64()? as usize,
            fault: v.get("fault")?.as_str()?.to_string(),
            errno: v.get("errno")?.as_i64()? as i32,
            k: v.get("k")?.as_u64()? as usize,
            chunk: v.get("chunk")?.as_u64()? as usize,
            seed: v.get("seed")?.as_str()?.parse().ok()?,
        })
    }
    fn spec(&self) -> Spec {
        let mut s = Spec::default();
        match self.optset {
            0 => {}
            1 => {
                s.margin = Some(1);
                s.layers.push((1, None));
                s.background = Some(crate::render::Colour::Rgba([255, 255, 255, 0]));
            }
            2 => {
                s.layers.push((2, Some(crate::render::Colour::Rgb([10, 20, 200]))));
                s.layers.push((5, None));
                s.margin = Some(0);
            }
            _ => {
                s.margin = Some(7);
                s.module_color = Some(crate::render::Colour::Rgb([120, 0, 60]));
                if self.png {
                    s.fit_width = Some(300);
                }
            }
        }
        if self.fault == "relative-image" {
            s.image = Some("logo.png".into());
        }
        if self.fault == "after-earlier-write" && self.k == 1 {
            if self.png {
                s.fit_width = Some(300);
                s.fit_height = Some(120);
            } else {
                s.margin = Some(s.margin_value() + 3);
            }
        }
        s
    }
    /// what the same process writes to another path right before the measured call (family "after-earlier-write")
    fn earlier(&self) -> (Config, Spec) {
        let mut cfg = self.config();
        let mut s = self.spec();
        match self.k {
            0 => {}
            1 => {
                // same symbol, same options except the one that decides the size
                if self.png {
                    s.fit_height = None;
                } else {
                    s.margin = Some(s.margin_value() - 3);
                }
            }
            2 => cfg.version = Some((self.version + 7).min(40)),
            _ => s.module_color = Some(crate::render::Colour::Rgb([9, 99, 199])),
        }
        (cfg, s)
    }
    fn config(&self) -> Config {
        let mut rng = Rng::new(self.seed);
        let len = 1 + rng.below(6);
        Config { input: (0..len).map(|_| b'a' + rng.below(26) as u8).collect(), mode: None, level: Some(rng.below(4)), version: Some(self.version), mask: None }
    }
}

const REAL_FAULTS: [&str; 10] = ["missing-directory", "path-is-directory", "parent-is-file", "name-too-long", "dev-full", "path-dot", "path-dotdot", "path-trailing-dotdot", "path-empty", "blank-before-absolute-path"];
/// total SVG lengths produced on purpose (index = case.k)
const EXACT_LENGTHS: [usize; 12] = [4096, 8191, 8192, 8193, 16384, 32768, 65535, 65536, 65537, 131072, 196608, 262144];
/// destination states that are not faults: a longer file, a shorter file, a symbolic link to a longer file
const PREEXISTING: [&str; 3] = ["existing-longer", "existing-shorter", "existing-symlink"];
const EACCES: i32 = 13;
const EROFS: i32 = 30;
const EMFILE: i32 = 24;
const ENOSPC: i32 = 28;
const EIO: i32 = 5;
const EDQUOT: i32 = 122;

pub fn jobs(ctx: &Ctx) -> Vec<Case> {
    let versions: Vec<usize> = ctx.tier.pick(vec![1, 7, 40], (1..=40).collect());
    let optsets: Vec<usize> = ctx.tier.pick(vec![0, 1], vec![0, 1, 2, 3]);
    let mut out = Vec::new();
    let mut n = 0u64;
    for &png in &[false, true] {
        for &version in &versions {
            for &optset in &optsets {
                // thin out the thorough cross product: every version gets every fault class with one
                // option set, rotating
                if ctx.tier == crate::fw::Tier::Thorough && (version + optset) % 4 != 0 && ![1usize, 7, 40].contains(&version) {
                    continue;
                }
                let mut push = |fault: &str, errno: i32, k: usize, chunk: usize| {
                    n += 1;
                    out.push(Case { png, version, optset, fault: fault.to_string(), errno, k, chunk, seed: mix(ctx.seed, n) });
                };
                push("none", 0, 0, 0);
                // the destination already exists (no fault): the result must still be exactly the rendering
                for f in PREEXISTING {
                    push(f, 0, 0, 0);
                }
                push("existing-longer-short-writes", 0, 0, 512);
                // exact lengths: the SVG is padded (through the image string) to exactly 2^k bytes, one less and one more,
                // and to a multiple of 64 KiB: block-wise writers and buffer boundaries
                if !png {
                    for (ti, _) in EXACT_LENGTHS.iter().enumerate() {
                        push("exact-length", 0, ti, 0);
                    }
                    push("exact-length-short-writes", 0, 4, 4096);
                    push("exact-length-short-writes", 0, 7, 65536);
                }
                // file names that begin or end with white space are legal, distinct names: the bytes must land in
                // exactly the file that was named (k: trailing blank, leading blank, trailing newline, trailing TAB)
                for kk in 0..4 {
                    push("name-with-blanks", 0, kk, 0);
                }
                // the format is decided by the builder that is asked, never by the file name: a PNG written to names ending in
                // .svg / .SVG / .jpg / nothing, an SVG written to a name ending in .png (k = which name)
                for kk in 0..5 {
                    push("foreign-extension", 0, kk, 0);
                }
                // the bare name "-" is a file name like any other (k=0: nothing there yet; k=1: a directory of that name)
                for kk in 0..2 {
                    push("name-dash", 0, kk, 0);
                }
                // an embedded image given as a RELATIVE path while the output goes to another directory: a real image of
                // that name lies in the working directory (k=0), next to the output file (k=1), or a different one in
                // both places (k=2) - whatever the in-memory rendering shows, the file must show the same
                for kk in 0..3 {
                    push("relative-image", 0, kk, 0);
                }
                // the same process has just written another rendering (same / nearly the same / bigger / recoloured)
                for kk in 0..4 {
                    push("after-earlier-write", 0, kk, 0);
                }
                for f in REAL_FAULTS {
                    push(f, 0, 0, 0);
                }
                for e in [EACCES, EROFS, EMFILE] {
                    push("create-fails", e, 0, 0);
                }
                for e in [ENOSPC, EIO, EDQUOT] {
                    push("write-fails", e, 1, 0);
                }
                // failure at the k-th write of a chunked stream ("device fills up half way")
                for k in [2usize, 3, 5, 9] {
                    push("write-fails", ENOSPC, k, 1024);
                }
                push("write-fails", EIO, 2, 7);
                push("short-writes", 0, 0, 7);
                push("short-writes", 0, 0, 4096);
                push("eintr", 0, 0, 0);
                push("eintr", 0, 0, 512);
            }
        }
    }
    out
}

fn scratch_root(ctx: &Ctx) -> PathBuf {
    let base = std::env::var_os("VCHECK_TARGET_DIR").map(PathBuf::from).unwrap_or_else(|| ctx.root.join("harness/target"));
    base.join("scratch")
}

fn shim_path(ctx: &Ctx) -> PathBuf {
    ctx.root.join("harness/shim/iofault.so")
}

pub fn observe(ctx: &Ctx, st: &mut Stats, c: &Case, idx: usize) {
    st.eval();
    let fail = |st: &mut Stats, kind: &str, detail: String| st.violation(ID, kind, format!("{detail} [{} version {} option set {} fault {} errno {} k {} chunk {}]", if c.png { "PNG" } else { "SVG" }, c.version, c.optset, c.fault, c.errno, c.k, c.chunk), c.to_json());
    let dir = scratch_root(ctx).join(format!("c19-{}-{idx}", std::process::id()));
    let _ = std::fs::remove_dir_all(&dir);
    if let Err(e) = std::fs::create_dir_all(&dir) {
        st.inconclusive(format!("cannot create scratch directory {}: {e}", dir.display()));
        return;
    }
    let ext = if c.png { "png" } else { "svg" };
    // the target path per fault class
    let target: PathBuf = match c.fault.as_str() {
        "missing-directory" => dir.join("no/such/dir").join(format!("out.{ext}")),
        "path-is-directory" => {
            let p = dir.join(format!("out.{ext}"));
            let _ = std::fs::create_dir_all(&p);
            p
        }
        "parent-is-file" => {
            let f = dir.join("plainfile");
            let _ = std::fs::write(&f, b"x");
            f.join(format!("out.{ext}"))
        }
        "name-too-long" => dir.join(format!("{}.{ext}", "n".repeat(300))),
        "dev-full" => PathBuf::from("/dev/full"),
        // paths without a file-name component (all of them name a directory, or nothing): an error, not a panic
        "path-dot" => dir.join("."),
        "path-dotdot" => {
            let _ = std::fs::create_dir_all(dir.join("sub"));
            dir.join("sub").join("..")
        }
        "path-trailing-dotdot" => {
            let _ = std::fs::create_dir_all(dir.join("x"));
            dir.join("x/..")
        }
        "path-empty" => PathBuf::from(""),
        "existing-longer" | "existing-longer-short-writes" => {
            // longer than any rendering of this workload (V40 SVG with two layers is about 1.2 MB)
            let p = dir.join(format!("out.{ext}"));
            let _ = std::fs::write(&p, vec![0xAAu8; 6 << 20]);
            p
        }
        "existing-shorter" => {
            let p = dir.join(format!("out.{ext}"));
            let _ = std::fs::write(&p, b"stale");
            p
        }
        "existing-symlink" => {
            let real = dir.join(format!("real.{ext}"));
            let _ = std::fs::write(&real, vec![0x55u8; 6 << 20]);
            let p = dir.join(format!("out.{ext}"));
            let _ = std::os::unix::fs::symlink(&real, &p);
            p
        }
        "foreign-extension" => dir.join(if c.png { ["out.svg", "out.SVG", "picture.jpg", "out", "out.png.svg"][c.k % 5] } else { ["out.png", "out.PNG", "out.txt", "out", "out.svg.png"][c.k % 5] }),
        "name-dash" => {
            if c.k == 1 {
                let _ = std::fs::create_dir_all(dir.join("-"));
            }
            PathBuf::from("-")
        }
        "name-with-blanks" => dir.join(match c.k {
            0 => format!("out.{ext} "),
            1 => format!(" out.{ext}"),
            2 => format!("out.{ext}\n"),
            _ => format!("out.{ext}\t"),
        }),
        // a blank in front of an absolute path makes it a relative path into a directory called " " that does not exist
        "blank-before-absolute-path" => PathBuf::from(format!(" {}", dir.join(format!("out.{ext}")).display())),
        "relative-image" => {
            // two different real PNG files (rendered by the crate itself from two small symbols)
            let logo = |seed: u8, colour: [u8; 3]| -> Option<Vec<u8>> {
                match adapter::build(&Config { input: vec![b'0' + seed; 3], mode: None, level: None, version: Some(1), mask: None }) {
                    Outcome::Ok(q) => {
                        let mut b = fast_qr::convert::image::ImageBuilder::default();
                        fast_qr::convert::Builder::module_color(&mut b, colour);
                        b.to_bytes(&q).ok()
                    }
                    _ => None,
                }
            };
            let (a, b) = match (logo(1, [200, 0, 0]), logo(2, [0, 0, 200])) {
                (Some(a), Some(b)) => (a, b),
                _ => {
                    st.inconclusive("relative-image: cannot render the two logo files".to_string());
                    return;
                }
            };
            let sub = dir.join("exports").join("2024");
            let _ = std::fs::create_dir_all(&sub);
            if c.k != 1 {
                let _ = std::fs::write(dir.join("logo.png"), &a);
            }
            if c.k != 0 {
                let _ = std::fs::write(sub.join("logo.png"), &b);
            }
            sub.join(format!("out.{ext}"))
        }
        _ => dir.join(format!("out.{ext}")),
    };
    let log = dir.join("shim.log");
    let exe = std::env::current_exe().expect("current_exe");
    // "-" is handed over as the bare relative name; it is relative to the child's working directory (the case's own)
    let target_arg: PathBuf = target.clone();
    let target = if c.fault == "name-dash" { dir.join(&target) } else { target };
    let mut cmd = Command::new(exe);
    cmd.arg("c19-child").arg(c.to_json().to_string()).arg(&target_arg).stdout(Stdio::piped()).stderr(Stdio::piped());
    if c.fault == "relative-image" || c.fault == "name-dash" {
        cmd.current_dir(&dir);
    }
    let injected = matches!(c.fault.as_str(), "create-fails" | "write-fails" | "short-writes" | "eintr" | "existing-longer-short-writes" | "exact-length-short-writes");
    if injected {
        let mode = match c.fault.as_str() {
            "create-fails" => "open",
            "write-fails" => "write",
            "eintr" => "eintr",
            _ => "none",
        };
        cmd.env("LD_PRELOAD", shim_path(ctx)).env("IOFAULT_DIR", &dir).env("IOFAULT_MODE", mode).env("IOFAULT_ERRNO", c.errno.to_string()).env("IOFAULT_K", c.k.max(1).to_string()).env("IOFAULT_CHUNK", c.chunk.to_string()).env("IOFAULT_LOG", &log);
    }
    let out = match cmd.output() {
        Ok(o) => o,
        Err(e) => {
            st.inconclusive(format!("cannot spawn child: {e}"));
            let _ = std::fs::remove_dir_all(&dir);
            return;
        }
    };
    let stdout = String::from_utf8_lossy(&out.stdout).to_string();
    let shimlog = std::fs::read_to_string(&log).unwrap_or_default();
    let delivered_hard = shimlog.lines().any(|l| l.starts_with("DELIVERED open") || l.starts_with("DELIVERED write"));
    let delivered_soft = shimlog.lines().filter(|l| l.starts_with("DELIVERED short") || l.starts_with("DELIVERED eintr")).count();
    let cleanup = |d: &Path| {
        let _ = std::fs::remove_dir_all(d);
    };
    // the child must end normally whatever happened
    if matches!(out.status.code(), Some(3) | Some(4)) {
        st.inconclusive(format!("workload bug: child could not set the case up (exit {:?}): {}", out.status.code(), c.to_json()));
        cleanup(&dir);
        return;
    }
    if !out.status.success() {
        fail(st, "child-abnormal-exit", format!("child ended with {} (panic/abort while writing?): stdout {:?} stderr {:?}", out.status, stdout.lines().last().unwrap_or(""), String::from_utf8_lossy(&out.stderr).lines().last().unwrap_or("")));
        cleanup(&dir);
        return;
    }
    if let Some(l) = stdout.lines().find(|l| l.starts_with("PANIC")) {
        fail(st, "panic", format!("to_file / error conversion panicked: {l}"));
        cleanup(&dir);
        return;
    }
    let result = stdout.lines().find(|l| l.starts_with("RESULT ")).map(|l| l[7..].to_string());
    let expect = stdout.lines().find(|l| l.starts_with("EXPECT ")).and_then(|l| {
        let mut it = l.split_whitespace().skip(1);
        Some((u64::from_str_radix(it.next()?, 16).ok()?, it.next()?.parse::<usize>().ok()?))
    });
    let (result, (want_hash, want_len)) = match (result, expect) {
        (Some(r), Some(e)) => (r, e),
        _ => {
            st.inconclusive(format!("child protocol broken: {stdout:?}"));
            cleanup(&dir);
            return;
        }
    };
    let ok = result.starts_with("ok");
    // oracle
    let hard_expected = REAL_FAULTS.contains(&c.fault.as_str()) || delivered_hard || (c.fault == "name-dash" && c.k == 1);
    if injected && matches!(c.fault.as_str(), "create-fails" | "write-fails") && !delivered_hard {
        // the configured fault was never reached (k beyond the number of writes): not a pass, not a failure
        st.count("configured_faults_not_reached", 1);
        st.reach("unreached", fnv(c.to_json().to_string().as_bytes()));
        if ok {
            // still check the all-or-error half
        } else {
            fail(st, "error-without-fault", format!("no fault was delivered but to_file returned {result}"));
            cleanup(&dir);
            return;
        }
    }
    if ok {
        if hard_expected {
            fail(st, "success-after-fault", format!("a hard fault was {} but to_file returned Ok(())", if delivered_hard { "delivered by the shim" } else { "present in the file system" }));
            cleanup(&dir);
            return;
        }
        match std::fs::read(&target) {
            Ok(bytes) => {
                if bytes.len() != want_len || fnv(&bytes) != want_hash {
                    fail(st, "ok-but-content-differs", format!("to_file returned Ok(()) but the file holds {} bytes (hash {:016x}); the in-memory rendering has {want_len} bytes (hash {want_hash:016x}); {delivered_soft} benign perturbations were delivered", bytes.len(), fnv(&bytes)));
                    cleanup(&dir);
                    return;
                }
                st.count("ok_files_compared_with_in_memory_rendering", 1);
                if c.fault.starts_with("exact-length") {
                    st.count("exact_length_documents_written_exactly", 1);
                    st.reach("exact_lengths", want_len as u64);
                }
                if c.fault == "after-earlier-write" {
                    st.count("writes_after_an_earlier_write_in_the_same_process_exact", 1);
                }
                if c.fault == "foreign-extension" {
                    st.count("files_with_an_extension_of_another_format_written_exactly", 1);
                }
                if c.fault == "relative-image" {
                    st.count("relative_image_references_with_output_in_another_directory_exact", 1);
                }
                if c.fault.starts_with("existing-") {
                    st.count("preexisting_destinations_overwritten_exactly", 1);
                }
                st.count("bytes_compared", bytes.len() as u64);
            }
            Err(e) => {
                fail(st, "ok-but-no-file", format!("to_file returned Ok(()) but the file cannot be read: {e}"));
                cleanup(&dir);
                return;
            }
        }
    } else {
        if !hard_expected {
            fail(st, "error-without-fault", format!("only benign perturbations ({delivered_soft}) were applied but to_file returned {result}"));
            cleanup(&dir);
            return;
        }
        st.count("errors_returned_for_hard_faults", 1);
    }
    if delivered_hard {
        st.count("injected_hard_faults_delivered", 1);
    }
    st.count("benign_perturbations_delivered", delivered_soft as u64);
    st.reach("fault_classes", fnv(c.fault.as_bytes()));
    st.reach("fault_class_x_format", fnv(c.fault.as_bytes()) ^ c.png as u64);
    st.reach("errnos", c.errno as u64);
    st.distinct(fnv(c.to_json().to_string().as_bytes()));
    st.sample(29, || json!({"case": c.to_json(), "result": result, "hard_fault_delivered": delivered_hard, "benign_delivered": delivered_soft, "shim_log_lines": shimlog.lines().count()}));
    cleanup(&dir);
}

/// child: build, render in memory, write to the path, report.
pub fn child_main(arg: &str, target: &str) -> i32 {
    let v: Value = match serde_json::from_str(arg) {
        Ok(v) => v,
        Err(_) => return 3,
    };
    let c = match Case::from_json(&v) {
        Some(c) => c,
        None => return 3,
    };
    let qr = match adapter::build(&c.config()) {
        Outcome::Ok(q) => q,
        _ => return 4,
    };
    let mut spec = c.spec();
    if c.fault.starts_with("exact-length") {
        // pad the document through the image string until its length is exactly the target
        let mut target = EXACT_LENGTHS[c.k.min(EXACT_LENGTHS.len() - 1)];
        spec.image = Some("a".into());
        let base = spec.svg_builder().to_str(&qr).len();
        if base > target {
            // a big symbol is already longer: aim at the next multiple of 64 KiB (-1, +0, +1 by case)
            target = (base / 65536 + 1) * 65536 + c.k % 3 - 1;
        }
        spec.image = Some("a".repeat(1 + target - base));
        let got = spec.svg_builder().to_str(&qr).len();
        if got != target {
            println!("PANIC workload: padded document has {got} bytes, wanted {target}");
            return 0;
        }
    }
    if c.fault == "after-earlier-write" {
        let (cfg0, spec0) = c.earlier();
        let qr0 = match adapter::build(&cfg0) {
            Outcome::Ok(q) => q,
            _ => return 4,
        };
        // odd variants write the earlier rendering to the SAME path (re-export over the previous export: same length
        // and same beginning when only a colour changed), even ones to a sibling path
        let prev = if c.k % 2 == 1 { target.to_string() } else { format!("{target}.earlier") };
        let r0 = adapter::guarded(|| if c.png { spec0.image_builder().to_file(&qr0, &prev).is_ok() } else { spec0.svg_builder().to_file(&qr0, &prev).is_ok() });
        if r0 != Ok(true) {
            println!("PANIC earlier write failed: {r0:?}");
            return 0;
        }
    }
    let r = adapter::guarded(|| -> (Vec<u8>, Result<(), ConvertError>) {
        if c.png {
            let b = spec.image_builder();
            let want = b.to_bytes(&qr).expect("in-memory png");
            let r = b.to_file(&qr, target).map_err(ConvertError::from);
            (want, r)
        } else {
            let b = spec.svg_builder();
            let want = b.to_str(&qr).into_bytes();
            let r = b.to_file(&qr, target).map_err(ConvertError::from);
            (want, r)
        }
    });
    match r {
        Ok((want, res)) => {
            // (whatever the call may have written to this process's standard output, the protocol starts a new line)
            println!();
            println!("EXPECT {:016x} {}", fnv(&want), want.len());
            match res {
                Ok(()) => println!("RESULT ok"),
                Err(e) => println!("RESULT err {e:?}"),
            }
        }
        Err(p) => println!("PANIC {p}"),
    }
    0
}

pub fn run(ctx: &Ctx) -> Report {
    let jobs = jobs(ctx);
    let shim_ok = shim_path(ctx).exists();
    let mut st = if shim_ok {
        pool::run(&jobs, ctx.remaining(), |st, job, i| observe(ctx, st, job, i))
    } else {
        let mut s = Stats::new();
        s.inconclusive(format!("fault shim {} is missing (run ./setup.sh)", shim_path(ctx).display()));
        s
    };
    let _ = std::fs::remove_dir(scratch_root(ctx));
    st.sets.remove("unreached");
    let mut rep = Report::new(
        st,
        "cases = {SVG, PNG} x versions {1,7,40} (thorough: all 40) x option sets x fault classes: none; destination already exists (6 MiB longer file, 5-byte shorter file, symbolic link to a longer file, longer file + short writes): Ok must leave exactly the rendering, no stale tail; SVG documents padded (through the image string) to exactly 4096, 8191, 8192, 8193, 16384, 32768, 65535, 65536, 65537, 131072, 196608, 262144 bytes, also under short writes; file names that begin or end with white space (the named file, not a trimmed one, must hold the bytes); names whose extension belongs to another format (a PNG written to out.svg, an SVG written to out.png: the builder decides the format); the bare relative name \"-\" (a file of that name must hold the bytes; a directory of that name is an error); an embedded image given as a relative path with a real image of that name in the working directory, next to the output file (another directory), or different ones in both; the same process has just written another rendering to the same or to another path (identical / same symbol with one size-deciding option changed / bigger symbol / other colour); real faults: missing directory (ENOENT), path is a directory (EISDIR), parent is a regular file (ENOTDIR), over-long name (ENAMETOOLONG), paths without a file-name component (dir/., dir/sub/.., dir/x/.., the empty path), an absolute path with a blank in front (a relative path into a missing directory), /dev/full (ENOSPC at write time); injected by an LD_PRELOAD shim scoped to the case's scratch directory: create fails with EACCES/EROFS/EMFILE, first write fails with ENOSPC/EIO/EDQUOT, k-th write of a chunked stream fails (k in 2,3,5,9; 1024-byte chunks; 7-byte chunks), every write short (7 / 4096 bytes), EINTR on every other write (with and without short writes); each case runs to_file in a child process; the shim logs every interception and every fault actually DELIVERED; oracle: Ok(()) => the file's bytes equal the in-memory rendering computed in the same child; a delivered hard fault => Err(_) converted through ConvertError::from, normal exit, no panic; only benign perturbations => Ok with full content; a configured fault that was never reached is counted separately and is not a pass for the error half; distinct key = case; every case non-trivial",
    );
    rep.level = "fault_enumeration";
    rep.expected_sets = vec![("fault_classes", 21), ("fault_class_x_format", 40)];
    rep.required_sets = vec![("fault_classes", 21), ("fault_class_x_format", 40)];
    rep.min_evaluations = 100;
    rep.assumptions = vec![
        "faults are injected at the libc boundary (open*/creat/write); Rust std and tiny-skia reach the kernel through these symbols (checked by the shim's interception log)".into(),
        "read-only locations cannot be provoked for root through permissions, so EACCES/EROFS are injected".into(),
    ];
    rep
}

pub fn replay(ctx: &Ctx, job: &Value) -> Option<Stats> {
    let c = Case::from_json(job)?;
    let mut st = Stats::new();
    observe(ctx, &mut st, &c, 999_999);
    Some(st)
}
