//! C18 — embedded-image frame is centred, module-aligned and inside the symbol.

use crate::adapter::{self, Outcome};
use crate::fw::{Ctx, Report};
use crate::job::Job;
use crate::pool;
use crate::props::c12::RJob;
use crate::render::Spec;
use crate::stats::Stats;
use crate::svgcheck::{self, Elem};
use oracle::rng::{mix, Rng};
use serde_json::{json, Value};
use std::sync::Mutex;

pub const ID: &str = "C18";
pub const FAMS: [&str; 2] = ["default-placement", "override"];

pub fn jobs(ctx: &Ctx) -> Vec<RJob> {
    let mut out = Vec::new();
    let mut k = 0u64;
    // defaults: all 40 versions x 3 frame shapes x margins 0..=16 (exhaustive)
    for v in 1..=40usize {
        for shape in 0..3usize {
            for margin in 0..=16usize {
                k += 1;
                let job = Job { fam: FAMS[0], class: 2, mode: Some(2), level: Some((k % 4) as usize), version: Some(v), mask: Some((k % 8) as usize), len: 1 + (k as usize % 5), gen: 0, seed: mix(ctx.seed, k), ..Default::default() };
                let mut spec = Spec { margin: Some(margin), image: Some("logo.png".into()), image_bg_shape: Some(shape), ..Default::default() };
                // the frame's colour is an option too (opaque values only: a fully transparent frame has no observable geometry)
                spec.image_bg_color = match k % 7 {
                    0 => Some(crate::render::Colour::Rgb([0, 0, 0])),
                    1 => Some(crate::render::Colour::Text("#ff0000".into())),
                    2 => Some(crate::render::Colour::Rgba([255, 255, 0, 255])),
                    3 => Some(crate::render::Colour::Text("#008000".into())),
                    4 => Some(crate::render::Colour::Rgb([(k * 37 % 256) as u8, (k * 91 % 256) as u8, (k * 13 % 256) as u8])),
                    _ => None,
                };
                out.push(RJob { job, spec });
            }
        }
    }
    // overrides: sampled reals
    let n = ctx.tier.pick(10_000, ctx.scale(1_500_000));
    let mut rng = Rng::new(ctx.seed ^ 0xc18);
    for _ in 0..n {
        k += 1;
        let v = 1 + rng.below(40);
        let size = (17 + 4 * v) as f64;
        let margin = rng.below(17);
        let job = Job { fam: FAMS[1], class: 2, mode: Some(2), level: Some(rng.below(4)), version: Some(v), mask: Some(rng.below(8)), len: 1 + rng.below(5), gen: 0, seed: mix(ctx.seed, k), ..Default::default() };
        let real = |rng: &mut Rng, lo: f64, hi: f64| -> f64 {
            match rng.below(4) {
                0 => (lo + (hi - lo) * rng.f64()).round(),
                1 => ((lo + (hi - lo) * rng.f64()) * 2.0).round() / 2.0,
                2 => ((lo + (hi - lo) * rng.f64()) * 100.0).round() / 100.0,
                _ => lo + (hi - lo) * rng.f64(),
            }
        };
        let mut spec = Spec { margin: Some(margin), image: Some("logo.png".into()), image_bg_shape: Some(rng.below(3)), ..Default::default() };
        if rng.chance(1, 2) {
            spec.image_bg_color = Some(match rng.below(4) {
                0 => crate::render::Colour::Rgb([0, 0, 0]),
                1 => crate::render::Colour::Text("#ff0000".into()),
                2 => crate::render::Colour::Rgb([rng.byte(), rng.byte(), 0]),
                _ => crate::render::Colour::Rgb([rng.byte(), rng.byte(), rng.byte()]),
            });
        }
        let which = 1 + rng.below(7); // at least one override
        if which & 1 != 0 {
            spec.image_size = Some(if rng.chance(1, 10) { [0.5, 1.0, 2.0, size][rng.below(4)] } else { real(&mut rng, 1.0, size * 0.5) });
        }
        if which & 2 != 0 {
            // boundary requests are requests too: a gap of exactly 0 (frame == image), tiny gaps
            spec.image_gap = Some(match rng.below(8) {
                0 => 0.0,
                1 => [0.01, 0.25, 0.5, 1.0][rng.below(4)],
                _ => real(&mut rng, 0.0, 6.0),
            });
        }
        if which & 4 != 0 {
            let s = size + 2.0 * margin as f64;
            let mut coord = |rng: &mut Rng| match rng.below(12) {
                0 => 0.0,
                1 => s,
                2 => margin as f64,
                3 => s / 2.0,
                4 | 5 => real(rng, 0.0, s),
                _ => real(rng, s * 0.25, s * 0.75),
            };
            let x = coord(&mut rng);
            let y = coord(&mut rng);
            spec.image_position = Some((x, y));
        }
        out.push(RJob { job, spec });
    }
    out
}

fn frame_and_image(svg: &str) -> Result<(Elem, Elem), (String, String)> {
    let doc = svgcheck::parse(svg)?;
    let rects: Vec<&Elem> = doc.elems.iter().filter(|e| e.name == "rect").collect();
    let images: Vec<&Elem> = doc.elems.iter().filter(|e| e.name == "image").collect();
    if rects.len() != 2 || images.len() != 1 {
        return Err(("frame-elements".into(), format!("{} rect and {} image elements (expected background + frame, one image)", rects.len(), images.len())));
    }
    Ok((rects[1].clone(), images[0].clone()))
}

/// widths observed for defaults: (shape, margin, version) -> width, checked for monotonicity at the end
type Widths = Mutex<Vec<(usize, usize, usize, f64)>>;

pub fn observe(_ctx: &Ctx, st: &mut Stats, rj: &RJob, widths: Option<&Widths>) {
    let cfg = rj.job.config();
    st.eval();
    let qr = match adapter::build(&cfg) {
        Outcome::Ok(q) => q,
        other => {
            st.violation(ID, "no-symbol", format!("crate returned {}", other.describe()), rj.to_json());
            return;
        }
    };
    // a quarter of the symbols are also rendered from a hand-assembled copy (QRCode::default(size) + the same
    // modules, no version / level / mask / mode fields): the document must be the same
    if rj.job.seed % 4 == 2 {
        let h = adapter::hand_assembled(&qr);
        match adapter::guarded(|| (rj.spec.svg_builder().to_str(&h), rj.spec.svg_builder().to_str(&qr))) {
            Ok((a, b)) => {
                if a != b {
                    let at = a.bytes().zip(b.bytes()).position(|(x, y)| x != y).unwrap_or(a.len().min(b.len()));
                    st.violation(ID, "hand-assembled-symbol-renders-differently", format!("a QRCode assembled from size and modules alone (no version/level/mask/mode fields) renders differently from the built one at byte {at}: ...{}... vs ...{}... [spec {}]", a.get(at.saturating_sub(30)..(at + 40).min(a.len())).unwrap_or(""), b.get(at.saturating_sub(30)..(at + 40).min(b.len())).unwrap_or(""), rj.spec.describe()), rj.to_json());
                    return;
                }
                st.count("hand_assembled_symbols_rendered_identically", 1);
            }
            Err(p) => {
                st.violation(ID, "render-panic", format!("rendering a hand-assembled QRCode panicked: {p}"), rj.to_json());
                return;
            }
        }
    }
    let svg = match adapter::guarded(|| rj.spec.svg_builder().to_str(&qr)) {
        Ok(s) => s,
        Err(p) => {
            st.violation(ID, "render-panic", p, rj.to_json());
            return;
        }
    };
    let fail = |st: &mut Stats, kind: &str, detail: String| {
        st.violation(ID, kind, format!("{detail} [version {}, spec {}]", qr.version.map(adapter::version_no).unwrap_or(0), rj.spec.describe()), rj.to_json());
    };
    let (frame, image) = match frame_and_image(&svg) {
        Ok(x) => x,
        Err(v) => {
            fail(st, &v.0, v.1);
            return;
        }
    };
    let g = |e: &Elem, k: &str| e.num(k);
    let (fx, fy, fw, fh) = match (g(&frame, "x"), g(&frame, "y"), g(&frame, "width"), g(&frame, "height")) {
        (Some(a), Some(b), Some(c), Some(d)) => (a, b, c, d),
        _ => {
            fail(st, "frame-attributes", format!("frame rect attributes unreadable: {:?}", frame.attrs));
            return;
        }
    };
    let (ix, iy, iw, ih) = match (g(&image, "x"), g(&image, "y"), g(&image, "width"), g(&image, "height")) {
        (Some(a), Some(b), Some(c), Some(d)) => (a, b, c, d),
        _ => {
            fail(st, "image-attributes", format!("image attributes unreadable: {:?}", image.attrs));
            return;
        }
    };
    let n = qr.size as f64;
    let margin = rj.spec.margin_value() as f64;
    let s = n + 2.0 * margin;
    const EPS: f64 = 1e-9;
    const TWO_DEC: f64 = 0.0051; // the image element is written with two decimals
    if (fw - fh).abs() > EPS {
        return fail(st, "frame-not-square", format!("frame is {fw} x {fh}"));
    }
    if (iw - ih).abs() > EPS {
        return fail(st, "image-not-square", format!("image is {iw} x {ih}"));
    }
    // image centred in the frame and not larger than it (both modes)
    // x and width are each rounded to two decimals: the centre can be off by 0.005 + 0.0025
    const CENTRE_TOL: f64 = 0.0076;
    if ((ix + iw / 2.0) - (fx + fw / 2.0)).abs() > CENTRE_TOL || ((iy + ih / 2.0) - (fy + fh / 2.0)).abs() > CENTRE_TOL {
        return fail(st, "image-not-centred-in-frame", format!("image centre ({}, {}) vs frame centre ({}, {})", ix + iw / 2.0, iy + ih / 2.0, fx + fw / 2.0, fy + fh / 2.0));
    }
    let is_default = rj.spec.image_size.is_none() && rj.spec.image_gap.is_none() && rj.spec.image_position.is_none();
    if is_default {
        if ((fx + fw / 2.0) - s / 2.0).abs() > EPS || ((fy + fh / 2.0) - s / 2.0).abs() > EPS {
            return fail(st, "frame-not-centred", format!("frame centre ({}, {}), symbol centre {}", fx + fw / 2.0, fy + fh / 2.0, s / 2.0));
        }
        if fx.fract() != 0.0 || fy.fract() != 0.0 || fw.fract() != 0.0 {
            return fail(st, "frame-not-module-aligned", format!("frame x={fx} y={fy} width={fw}: edges do not lie on module boundaries"));
        }
        if !(fw < 0.4 * n) {
            return fail(st, "frame-too-large", format!("frame side {fw} is not below 40% of the symbol side {n}"));
        }
        if fw <= 0.0 {
            return fail(st, "frame-empty", format!("frame side {fw}"));
        }
        // clear of the three 7x7 finder patterns
        for (qx, qy) in [(margin, margin), (margin + n - 7.0, margin), (margin, margin + n - 7.0)] {
            let overlap = fx < qx + 7.0 && qx < fx + fw && fy < qy + 7.0 && qy < fy + fh;
            if overlap {
                return fail(st, "frame-overlaps-finder", format!("frame [{fx},{}]x[{fy},{}] overlaps the finder pattern at ({qx},{qy})", fx + fw, fy + fh));
            }
        }
        if iw > fw + TWO_DEC {
            return fail(st, "image-larger-than-frame", format!("image side {iw} > frame side {fw}"));
        }
        if iw <= 0.0 {
            return fail(st, "image-empty", format!("image side {iw}"));
        }
        if let Some(w) = widths {
            w.lock().unwrap().push((rj.spec.image_bg_shape.unwrap_or(0), rj.spec.margin_value(), qr.version.map(adapter::version_no).unwrap_or(0), fw));
        }
        st.count("default_frames_checked", 1);
        st.reach("default_cells", ((qr.version.map(adapter::version_no).unwrap_or(0) * 3 + rj.spec.image_bg_shape.unwrap_or(0)) * 17 + rj.spec.margin_value()) as u64);
    } else {
        if let Some(size) = rj.spec.image_size {
            if (iw - size).abs() > TWO_DEC {
                return fail(st, "image-size-not-honoured", format!("requested image size {size}, image element has {iw}"));
            }
        }
        if let Some(gap) = rj.spec.image_gap {
            let d = fw - iw;
            if d < 2.0 * gap - 1.0 - TWO_DEC || d > 2.0 * gap + TWO_DEC {
                return fail(st, "gap-not-honoured", format!("requested gap {gap}: frame {fw} - image {iw} = {d}, expected within [2*gap-1, 2*gap]"));
            }
        }
        let (cx, cy) = rj.spec.image_position.unwrap_or((s / 2.0, s / 2.0));
        if ((fx + fw / 2.0) - cx).abs() > 1e-6 || ((fy + fh / 2.0) - cy).abs() > 1e-6 {
            return fail(st, "position-not-honoured", format!("frame centre ({}, {}), requested ({cx}, {cy})", fx + fw / 2.0, fy + fh / 2.0));
        }
        st.count("override_frames_checked", 1);
        if rj.spec.image_gap == Some(0.0) {
            st.count("override_zero_gap_requests", 1);
        }
        if let Some((x, y)) = rj.spec.image_position {
            if x == 0.0 || y == 0.0 {
                st.count("override_positions_on_the_origin_axes", 1);
            }
        }
        st.reach("override_shapes", (rj.spec.image_size.is_some() as u64) | (rj.spec.image_gap.is_some() as u64) << 1 | (rj.spec.image_position.is_some() as u64) << 2);
    }
    st.distinct(mix(rj.job.key(&cfg.input), oracle::rng::fnv(rj.spec.describe().as_bytes())));
    st.sample(509, || json!({"version": qr.version.map(adapter::version_no), "spec": rj.spec.to_json(), "frame": [fx, fy, fw], "image": [ix, iy, iw]}));
}

pub fn run(ctx: &Ctx) -> Report {
    let jobs = jobs(ctx);
    let widths: Widths = Mutex::new(Vec::new());
    let mut st = pool::run(&jobs, ctx.remaining(), |st, job, _| observe(ctx, st, job, Some(&widths)));
    // the default frame never shrinks as the version grows
    let mut w = widths.into_inner().unwrap();
    w.sort_by(|a, b| (a.0, a.1, a.2).cmp(&(b.0, b.1, b.2)));
    let mut mono = 0u64;
    for pair in w.windows(2) {
        if pair[0].0 == pair[1].0 && pair[0].1 == pair[1].1 && pair[0].2 + 1 == pair[1].2 {
            mono += 1;
            if pair[1].3 < pair[0].3 {
                st.violation(ID, "frame-shrinks", format!("frame shape {} margin {}: side {} at version {} but {} at version {}", crate::render::IBG_NAMES[pair[0].0], pair[0].1, pair[0].3, pair[0].2, pair[1].3, pair[1].2), json!({"fam": "aggregate"}));
            }
        }
    }
    st.count("version_to_version_width_comparisons", mono);
    let mut rep = Report::new(
        st,
        "jobs = all 40 versions x 3 frame shapes x margins 0..=16 with default placement (2040 cases, enumerated completely) + sampled real-valued overrides (size in [1, size/2] plus {0.5, 1, 2, size}, gap in [0, 6] incl. exactly 0 and tiny gaps, position anywhere in [0, S] incl. 0, S, margin, S/2; integers, halves, 2-decimals and arbitrary reals; all 7 non-empty subsets of {size, gap, position}); the frame <rect> and <image> are read from the parsed XML tree and the statement is checked directly: centred, integer edges, side < 40% and clear of the three finder squares, non-decreasing in the version, image square/centred/not larger (defaults); requested size (2 decimals), frame-image in [2gap-1, 2gap], frame centred on the requested position (overrides); distinct key = (qr options, spec); every case non-trivial",
    );
    rep.exhaustive = Some(true);
    rep.expected_sets = vec![("default_cells", 2040), ("override_shapes", 7)];
    rep.required_sets = vec![("default_cells", 2040), ("override_shapes", 7)];
    rep.min_evaluations = 5000;
    rep.assumptions = vec!["exhaustive refers to the default-placement space (version x frame shape x margin 0..16); overrides are sampled".into()];
    rep
}

pub fn replay(ctx: &Ctx, job: &Value) -> Option<Stats> {
    let rj = RJob::from_json(job, &FAMS)?;
    let mut st = Stats::new();
    observe(ctx, &mut st, &rj, None);
    Some(st)
}
