//! C18 — embedded-image frame is centred, module-aligned and inside the symbol.

use crate::adapter::{self, Outcome};
use crate::fw::{Ctx, Report};
use crate::job::Job;
use crate::pool;
use crate::props::c12::RJob;
use crate::render::Spec;
use crate::stats::Stats;
use crate::svgcheck::{self, Elem};
use oracle::rng::{mix, Rng};
use serde_json::{json, Value};
use std::sync::Mutex;

pub const ID: &str = "C18";
pub const FAMS: [&str; 3] = ["default-placement", "override", "raster-route"];

pub fn jobs(ctx: &Ctx) -> Vec<RJob> {
    let mut out = Vec::new();
    let mut k = 0u64;
    // defaults: all 40 versions x 3 frame shapes x margins 0..=16 (exhaustive)
    for v in 1..=40usize {
        for shape in 0..3usize {
            for margin in 0..=16usize {
                k += 1;
                let job = Job { fam: FAMS[0], class: 2, mode: Some(2), level: Some((k % 4) as usize), version: Some(v), mask: Some((k % 8) as usize), len: 1 + (k as usize % 5), gen: 0, seed: mix(ctx.seed, k), ..Default::default() };
                let mut spec = Spec { margin: Some(margin), image: Some("logo.png".into()), image_bg_shape: Some(shape), ..Default::default() };
                // the frame's colour is an option too (opaque values only: a fully transparent frame has no observable geometry)
                spec.image_bg_color = match k % 7 {
                    0 => Some(crate::render::Colour::Rgb([0, 0, 0])),
                    1 => Some(crate::render::Colour::Text("#ff0000".into())),
                    2 => Some(crate::render::Colour::Rgba([255, 255, 0, 255])),
                    3 => Some(crate::render::Colour::Text("#008000".into())),
                    4 => Some(crate::render::Colour::Rgb([(k * 37 % 256) as u8, (k * 91 % 256) as u8, (k * 13 % 256) as u8])),
                    _ => None,
                };
                // module-shape layers are options too; the frame may not depend on them (every shape occurs, also several)
                match k % 5 {
                    1 => spec.layers.push(((k / 5 % 6) as usize, None)),
                    2 => {
                        spec.layers.push((2, Some(crate::render::Colour::Rgb([20, 20, 20]))));
                        spec.layers.push(((k / 7 % 6) as usize, None));
                    }
                    _ => {}
                }
                out.push(RJob { job, spec });
            }
        }
    }
    // the same options given to the raster builder (`ImageBuilder` forwards the image_* setters): the frame must sit in
    // the pixmap where the SVG document of the same options puts it. Square frame in an opaque colour no module has,
    // a fully transparent embedded image, 8 px per module, requests on a half-module grid (edges on pixel boundaries)
    {
        let mut rng = Rng::new(ctx.seed ^ 0x7a57e7);
        for i in 0..ctx.tier.pick(160usize, ctx.scale(4_000)) {
            k += 1;
            let v = 1 + rng.below(12);
            let size = (17 + 4 * v) as f64;
            let margin = rng.below(5);
            let s_units = size + 2.0 * margin as f64;
            let job = Job { fam: FAMS[2], class: 2, mode: Some(2), level: Some(rng.below(4)), version: Some(v), mask: Some(rng.below(8)), len: 1 + rng.below(5), gen: 0, seed: mix(ctx.seed, k), ..Default::default() };
            let mut spec = Spec { margin: Some(margin), image: Some(String::new()), image_bg_shape: Some(0), image_bg_color: Some(crate::render::Colour::Rgb([255, 0, 0])), ..Default::default() };
            let half = |rng: &mut Rng, lo: f64, hi: f64| ((lo + (hi - lo) * rng.f64()) * 2.0).round() / 2.0;
            let which = if i % 4 == 0 { 0 } else { 1 + rng.below(7) };
            if which & 1 != 0 {
                spec.image_size = Some(half(&mut rng, 2.0, size * 0.3));
            }
            if which & 2 != 0 {
                spec.image_gap = Some(half(&mut rng, 0.0, 3.0));
            }
            if which & 4 != 0 {
                // well inside the picture, so that the whole frame is visible
                spec.image_position = Some((half(&mut rng, s_units * 0.35, s_units * 0.65), half(&mut rng, s_units * 0.35, s_units * 0.65)));
            }
            spec.fit_width = Some((s_units * 8.0) as u32);
            out.push(RJob { job, spec });
        }
    }
    // overrides: sampled reals
    let n = ctx.tier.pick(10_000, ctx.scale(1_500_000));
    let mut rng = Rng::new(ctx.seed ^ 0xc18);
    for _ in 0..n {
        k += 1;
        let v = 1 + rng.below(40);
        let size = (17 + 4 * v) as f64;
        let margin = rng.below(17);
        let job = Job { fam: FAMS[1], class: 2, mode: Some(2), level: Some(rng.below(4)), version: Some(v), mask: Some(rng.below(8)), len: 1 + rng.below(5), gen: 0, seed: mix(ctx.seed, k), ..Default::default() };
        let real = |rng: &mut Rng, lo: f64, hi: f64| -> f64 {
            match rng.below(4) {
                0 => (lo + (hi - lo) * rng.f64()).round(),
                1 => ((lo + (hi - lo) * rng.f64()) * 2.0).round() / 2.0,
                2 => ((lo + (hi - lo) * rng.f64()) * 100.0).round() / 100.0,
                _ => lo + (hi - lo) * rng.f64(),
            }
        };
        let mut spec = Spec { margin: Some(margin), image: Some("logo.png".into()), image_bg_shape: Some(rng.below(3)), ..Default::default() };
        if rng.chance(1, 2) {
            spec.image_bg_color = Some(match rng.below(4) {
                0 => crate::render::Colour::Rgb([0, 0, 0]),
                1 => crate::render::Colour::Text("#ff0000".into()),
                2 => crate::render::Colour::Rgb([rng.byte(), rng.byte(), 0]),
                _ => crate::render::Colour::Rgb([rng.byte(), rng.byte(), rng.byte()]),
            });
        }
        if rng.chance(1, 3) {
            for _ in 0..1 + rng.below(2) {
                spec.layers.push((rng.below(6), if rng.chance(1, 2) { Some(crate::render::random_colour(&mut rng, false)) } else { None }));
            }
        }
        let which = 1 + rng.below(7); // at least one override
        if which & 1 != 0 {
            spec.image_size = Some(if rng.chance(1, 10) { [0.5, 1.0, 2.0, size][rng.below(4)] } else { real(&mut rng, 1.0, size * 0.5) });
        }
        if which & 2 != 0 {
            // boundary requests are requests too: a gap of exactly 0 (frame == image), tiny gaps
            spec.image_gap = Some(match rng.below(8) {
                0 => 0.0,
                1 => [0.01, 0.25, 0.5, 1.0][rng.below(4)],
                _ => real(&mut rng, 0.0, 6.0),
            });
        }
        if which & 4 != 0 {
            let s = size + 2.0 * margin as f64;
            let mut coord = |rng: &mut Rng| match rng.below(12) {
                0 => 0.0,
                1 => s,
                2 => margin as f64,
                3 => s / 2.0,
                4 | 5 => real(rng, 0.0, s),
                _ => real(rng, s * 0.25, s * 0.75),
            };
            let x = coord(&mut rng);
            let y = coord(&mut rng);
            spec.image_position = Some((x, y));
            // positions are module coordinates whatever their magnitude: one request in twelve lies inside the unit
            // square (0,1) x (0,1) (values that could be mistaken for fractions), or has exactly 1.0 / tiny values
            if rng.chance(1, 12) {
                let small = |rng: &mut Rng| [0.5, 0.25, 0.75, 0.01, 0.99, 1.0, 0.1, 1e-9][rng.below(8)];
                spec.image_position = Some((small(&mut rng), small(&mut rng)));
            }
        }
        out.push(RJob { job, spec });
    }
    out
}

fn frame_and_image(svg: &str) -> Result<(Elem, Elem), (String, String)> {
    let doc = svgcheck::parse(svg)?;
    let rects: Vec<&Elem> = doc.elems.iter().filter(|e| e.name == "rect").collect();
    let images: Vec<&Elem> = doc.elems.iter().filter(|e| e.name == "image").collect();
    if rects.len() != 2 || images.len() != 1 {
        return Err(("frame-elements".into(), format!("{} rect and {} image elements (expected background + frame, one image)", rects.len(), images.len())));
    }
    Ok((rects[1].clone(), images[0].clone()))
}

/// widths observed for defaults: (shape, margin, version) -> width, checked for monotonicity at the end
type Widths = Mutex<Vec<(usize, usize, usize, f64)>>;

fn base64(b: &[u8]) -> String {
    const T: &[u8; 64] = b"ABCDEFGHIJKLMNOPQRSTUVWXYZabcdefghijklmnopqrstuvwxyz0123456789+/";
    let mut o = String::with_capacity(b.len() * 4 / 3 + 4);
    for c in b.chunks(3) {
        let n = (c[0] as u32) << 16 | (*c.get(1).unwrap_or(&0) as u32) << 8 | *c.get(2).unwrap_or(&0) as u32;
        o.push(T[(n >> 18) as usize & 63] as char);
        o.push(T[(n >> 12) as usize & 63] as char);
        o.push(if c.len() > 1 { T[(n >> 6) as usize & 63] as char } else { '=' });
        o.push(if c.len() > 2 { T[n as usize & 63] as char } else { '=' });
    }
    o
}

/// family "raster-route": the frame measured in the pixmap against the frame element of the SVG document
fn observe_raster(st: &mut Stats, rj: &RJob) {
    let cfg = rj.job.config();
    st.eval();
    let qr = match adapter::build(&cfg) {
        Outcome::Ok(q) => q,
        other => {
            st.violation(ID, "no-symbol", format!("crate returned {}", other.describe()), rj.to_json());
            return;
        }
    };
    let fail = |st: &mut Stats, kind: &str, detail: String| st.violation(ID, &format!("raster/{kind}"), format!("{detail} [qr: {}; spec: {}]", cfg.describe(), rj.spec.describe()), rj.to_json());
    // the embedded image: a fully transparent PNG rendered by the crate itself (a tiny symbol in transparent colours)
    let mut spec = rj.spec.clone();
    let clear = {
        let blank = Spec { module_color: Some(crate::render::Colour::Rgba([0, 0, 0, 0])), background: Some(crate::render::Colour::Rgba([0, 0, 0, 0])), ..Default::default() };
        let tiny = adapter::build(&adapter::Config { input: b"0".to_vec(), mode: None, level: None, version: Some(1), mask: None });
        match tiny {
            Outcome::Ok(t) => adapter::guarded(|| blank.image_builder().to_bytes(&t)).ok().and_then(|r| r.ok()),
            _ => None,
        }
    };
    let clear = match clear {
        Some(c) => c,
        None => {
            st.inconclusive("raster-route: cannot render the transparent image".to_string());
            return;
        }
    };
    spec.image = Some(format!("data:image/png;base64,{}", base64(&clear)));
    let svg = match adapter::guarded(|| spec.svg_builder().to_str(&qr)) {
        Ok(s) => s,
        Err(p) => return fail(st, "render-panic", p),
    };
    let (frame, _image) = match frame_and_image(&svg) {
        Ok(x) => x,
        Err(v) => return fail(st, &v.0, v.1),
    };
    let (fx, fy, fw) = match (frame.num("x"), frame.num("y"), frame.num("width")) {
        (Some(a), Some(b), Some(c)) => (a, b, c),
        _ => return fail(st, "frame-attributes", format!("{:?}", frame.attrs)),
    };
    let pix = match adapter::guarded(|| spec.image_builder().to_pixmap(&qr)) {
        Ok(p) => p,
        Err(p) => return fail(st, "render-panic", p),
    };
    let units = qr.size + 2 * spec.margin_value();
    let (w, h) = (pix.width() as usize, pix.height() as usize);
    if w != units * 8 || h != units * 8 {
        return fail(st, "pixmap-size", format!("pixmap is {w} x {h}, expected {} (8 px per module)", units * 8));
    }
    let data = pix.data();
    let (mut x0, mut y0, mut x1, mut y1, mut count) = (usize::MAX, usize::MAX, 0usize, 0usize, 0u64);
    for y in 0..h {
        for x in 0..w {
            let p = &data[(y * w + x) * 4..(y * w + x) * 4 + 4];
            if p[0] > 200 && p[1] < 60 && p[2] < 60 && p[3] > 200 {
                x0 = x0.min(x);
                y0 = y0.min(y);
                x1 = x1.max(x + 1);
                y1 = y1.max(y + 1);
                count += 1;
            }
        }
    }
    if count == 0 {
        return fail(st, "frame-not-drawn", format!("no pixel has the frame colour; the document puts the frame at x={fx} y={fy} side {fw}"));
    }
    let (mx0, my0, mx1, my1) = (x0 as f64 / 8.0, y0 as f64 / 8.0, x1 as f64 / 8.0, y1 as f64 / 8.0);
    const TOL: f64 = 0.1251; // one pixel
    if (mx0 - fx).abs() > TOL || (my0 - fy).abs() > TOL || (mx1 - (fx + fw)).abs() > TOL || (my1 - (fy + fw)).abs() > TOL {
        return fail(st, "frame-misplaced", format!("the frame covers [{mx0}, {mx1}] x [{my0}, {my1}] (module units, measured in the pixmap at 8 px per module); the SVG document of the same options puts it at [{fx}, {}] x [{fy}, {}]; requested position {:?}", fx + fw, fy + fw, spec.image_position));
    }
    // solid: the transparent image lets the whole frame show
    let want = ((x1 - x0) * (y1 - y0)) as u64;
    if count * 100 < want * 97 {
        return fail(st, "frame-not-solid", format!("{count} of {want} pixels inside the measured frame have the frame colour"));
    }
    st.count("raster_frames_measured_against_the_svg_frame", 1);
    st.reach("raster_override_shapes", (spec.image_size.is_some() as u64) | (spec.image_gap.is_some() as u64) << 1 | (spec.image_position.is_some() as u64) << 2);
    st.distinct(mix(rj.job.key(&cfg.input), oracle::rng::fnv(rj.spec.describe().as_bytes())));
}

pub fn observe(_ctx: &Ctx, st: &mut Stats, rj: &RJob, widths: Option<&Widths>) {
    if rj.job.fam == FAMS[2] {
        return observe_raster(st, rj);
    }
    let cfg = rj.job.config();
    st.eval();
    let qr = match adapter::build(&cfg) {
        Outcome::Ok(q) => q,
        other => {
            st.violation(ID, "no-symbol", format!("crate returned {}", other.describe()), rj.to_json());
            return;
        }
    };
    // a quarter of the symbols are also rendered from a hand-assembled copy (QRCode::default(size) + the same
    // modules, no version / level / mask / mode fields): the document must be the same
    if rj.job.seed % 4 == 2 {
        let h = adapter::hand_assembled(&qr);
        match adapter::guarded(|| (rj.spec.svg_builder().to_str(&h), rj.spec.svg_builder().to_str(&qr))) {
            Ok((a, b)) => {
                if a != b {
                    let at = a.bytes().zip(b.bytes()).position(|(x, y)| x != y).unwrap_or(a.len().min(b.len()));
                    st.violation(ID, "hand-assembled-symbol-renders-differently", format!("a QRCode assembled from size and modules alone (no version/level/mask/mode fields) renders differently from the built one at byte {at}: ...{}... vs ...{}... [spec {}]", a.get(at.saturating_sub(30)..(at + 40).min(a.len())).unwrap_or(""), b.get(at.saturating_sub(30)..(at + 40).min(b.len())).unwrap_or(""), rj.spec.describe()), rj.to_json());
                    return;
                }
                st.count("hand_assembled_symbols_rendered_identically", 1);
            }
            Err(p) => {
                st.violation(ID, "render-panic", format!("rendering a hand-assembled QRCode panicked: {p}"), rj.to_json());
                return;
            }
        }
    }
    let svg = match adapter::guarded(|| rj.spec.svg_builder_for(Some(&qr)).to_str(&qr)) {
        Ok(s) => s,
        Err(p) => {
            st.violation(ID, "render-panic", p, rj.to_json());
            return;
        }
    };
    let fail = |st: &mut Stats, kind: &str, detail: String| {
        st.violation(ID, kind, format!("{detail} [version {}, spec {}]", qr.version.map(adapter::version_no).unwrap_or(0), rj.spec.describe()), rj.to_json());
    };
    let (frame, image) = match frame_and_image(&svg) {
        Ok(x) => x,
        Err(v) => {
            fail(st, &v.0, v.1);
            return;
        }
    };
    let g = |e: &Elem, k: &str| e.num(k);
    let (fx, fy, fw, fh) = match (g(&frame, "x"), g(&frame, "y"), g(&frame, "width"), g(&frame, "height")) {
        (Some(a), Some(b), Some(c), Some(d)) => (a, b, c, d),
        _ => {
            fail(st, "frame-attributes", format!("frame rect attributes unreadable: {:?}", frame.attrs));
            return;
        }
    };
    let (ix, iy, iw, ih) = match (g(&image, "x"), g(&image, "y"), g(&image, "width"), g(&image, "height")) {
        (Some(a), Some(b), Some(c), Some(d)) => (a, b, c, d),
        _ => {
            fail(st, "image-attributes", format!("image attributes unreadable: {:?}", image.attrs));
            return;
        }
    };
    let n = qr.size as f64;
    let margin = rj.spec.margin_value() as f64;
    let s = n + 2.0 * margin;
    const EPS: f64 = 1e-9;
    const TWO_DEC: f64 = 0.0051; // the image element is written with two decimals
    if (fw - fh).abs() > EPS {
        return fail(st, "frame-not-square", format!("frame is {fw} x {fh}"));
    }
    if (iw - ih).abs() > EPS {
        return fail(st, "image-not-square", format!("image is {iw} x {ih}"));
    }
    // image centred in the frame and not larger than it (both modes)
    // x and width are each rounded to two decimals: the centre can be off by 0.005 + 0.0025
    const CENTRE_TOL: f64 = 0.0076;
    if ((ix + iw / 2.0) - (fx + fw / 2.0)).abs() > CENTRE_TOL || ((iy + ih / 2.0) - (fy + fh / 2.0)).abs() > CENTRE_TOL {
        return fail(st, "image-not-centred-in-frame", format!("image centre ({}, {}) vs frame centre ({}, {})", ix + iw / 2.0, iy + ih / 2.0, fx + fw / 2.0, fy + fh / 2.0));
    }
    let is_default = rj.spec.image_size.is_none() && rj.spec.image_gap.is_none() && rj.spec.image_position.is_none();
    if is_default {
        if ((fx + fw / 2.0) - s / 2.0).abs() > EPS || ((fy + fh / 2.0) - s / 2.0).abs() > EPS {
            return fail(st, "frame-not-centred", format!("frame centre ({}, {}), symbol centre {}", fx + fw / 2.0, fy + fh / 2.0, s / 2.0));
        }
        if fx.fract() != 0.0 || fy.fract() != 0.0 || fw.fract() != 0.0 {
            return fail(st, "frame-not-module-aligned", format!("frame x={fx} y={fy} width={fw}: edges do not lie on module boundaries"));
        }
        if !(fw < 0.4 * n) {
            return fail(st, "frame-too-large", format!("frame side {fw} is not below 40% of the symbol side {n}"));
        }
        if fw <= 0.0 {
            return fail(st, "frame-empty", format!("frame side {fw}"));
        }
        // clear of the three 7x7 finder patterns
        for (qx, qy) in [(margin, margin), (margin + n - 7.0, margin), (margin, margin + n - 7.0)] {
            let overlap = fx < qx + 7.0 && qx < fx + fw && fy < qy + 7.0 && qy < fy + fh;
            if overlap {
                return fail(st, "frame-overlaps-finder", format!("frame [{fx},{}]x[{fy},{}] overlaps the finder pattern at ({qx},{qy})", fx + fw, fy + fh));
            }
        }
        if iw > fw + TWO_DEC {
            return fail(st, "image-larger-than-frame", format!("image side {iw} > frame side {fw}"));
        }
        if iw <= 0.0 {
            return fail(st, "image-empty", format!("image side {iw}"));
        }
        if let Some(w) = widths {
            w.lock().unwrap().push((rj.spec.image_bg_shape.unwrap_or(0), rj.spec.margin_value(), qr.version.map(adapter::version_no).unwrap_or(0), fw));
        }
        st.count("default_frames_checked", 1);
        st.reach("default_cells", ((qr.version.map(adapter::version_no).unwrap_or(0) * 3 + rj.spec.image_bg_shape.unwrap_or(0)) * 17 + rj.spec.margin_value()) as u64);
    } else {
        if let Some(size) = rj.spec.image_size {
            if (iw - size).abs() > TWO_DEC {
                return fail(st, "image-size-not-honoured", format!("requested image size {size}, image element has {iw}"));
            }
        }
        if let Some(gap) = rj.spec.image_gap {
            let d = fw - iw;
            if d < 2.0 * gap - 1.0 - TWO_DEC || d > 2.0 * gap + TWO_DEC {
                return fail(st, "gap-not-honoured", format!("requested gap {gap}: frame {fw} - image {iw} = {d}, expected within [2*gap-1, 2*gap]"));
            }
        }
        let (cx, cy) = rj.spec.image_position.unwrap_or((s / 2.0, s / 2.0));
        if ((fx + fw / 2.0) - cx).abs() > 1e-6 || ((fy + fh / 2.0) - cy).abs() > 1e-6 {
            return fail(st, "position-not-honoured", format!("frame centre ({}, {}), requested ({cx}, {cy})", fx + fw / 2.0, fy + fh / 2.0));
        }
        st.count("override_frames_checked", 1);
        if rj.spec.image_gap == Some(0.0) {
            st.count("override_zero_gap_requests", 1);
        }
        if let Some((x, y)) = rj.spec.image_position {
            if x == 0.0 || y == 0.0 {
                st.count("override_positions_on_the_origin_axes", 1);
            }
        }
        st.reach("override_shapes", (rj.spec.image_size.is_some() as u64) | (rj.spec.image_gap.is_some() as u64) << 1 | (rj.spec.image_position.is_some() as u64) << 2);
    }
    st.distinct(mix(rj.job.key(&cfg.input), oracle::rng::fnv(rj.spec.describe().as_bytes())));
    st.sample(509, || json!({"version": qr.version.map(adapter::version_no), "spec": rj.spec.to_json(), "frame": [fx, fy, fw], "image": [ix, iy, iw]}));
}

pub fn run(ctx: &Ctx) -> Report {
    let jobs = jobs(ctx);
    let widths: Widths = Mutex::new(Vec::new());
    let mut st = pool::run(&jobs, ctx.remaining(), |st, job, _| observe(ctx, st, job, Some(&widths)));
    // the default frame never shrinks as the version grows
    let mut w = widths.into_inner().unwrap();
    w.sort_by(|a, b| (a.0, a.1, a.2).cmp(&(b.0, b.1, b.2)));
    let mut mono = 0u64;
    for pair in w.windows(2) {
        if pair[0].0 == pair[1].0 && pair[0].1 == pair[1].1 && pair[0].2 + 1 == pair[1].2 {
            mono += 1;
            if pair[1].3 < pair[0].3 {
                st.violation(ID, "frame-shrinks", format!("frame shape {} margin {}: side {} at version {} but {} at version {}", crate::render::IBG_NAMES[pair[0].0], pair[0].1, pair[0].3, pair[0].2, pair[1].3, pair[1].2), json!({"fam": "aggregate"}));
            }
        }
    }
    st.count("version_to_version_width_comparisons", mono);
    let mut rep = Report::new(
        st,
        "jobs = all 40 versions x 3 frame shapes x margins 0..=16 with default placement (2040 cases, enumerated completely) + sampled real-valued overrides (size in [1, size/2] plus {0.5, 1, 2, size}, gap in [0, 6] incl. exactly 0 and tiny gaps, position anywhere in [0, S] incl. 0, S, margin, S/2 and positions inside the unit square; integers, halves, 2-decimals and arbitrary reals; all 7 non-empty subsets of {size, gap, position}); the frame <rect> and <image> are read from the parsed XML tree and the statement is checked directly: centred, integer edges, side < 40% and clear of the three finder squares, non-decreasing in the version, image square/centred/not larger (defaults); requested size (2 decimals), frame-image in [2gap-1, 2gap], frame centred on the requested position (overrides); + the raster route: 160 (thorough 4,000) option sets on a half-module grid given to ImageBuilder (Square frame in an opaque colour no module has, fully transparent embedded image, 8 px per module): the frame's pixel bounding box must coincide within one pixel with the frame element of the SVG document for the same options, and be solid; distinct key = (qr options, spec); every case non-trivial",
    );
    rep.exhaustive = Some(true);
    rep.expected_sets = vec![("default_cells", 2040), ("override_shapes", 7), ("raster_override_shapes", 8)];
    rep.required_sets = vec![("default_cells", 2040), ("override_shapes", 7), ("raster_override_shapes", 8)];
    rep.min_evaluations = 5000;
    rep.assumptions = vec!["exhaustive refers to the default-placement space (version x frame shape x margin 0..16); overrides are sampled".into()];
    rep
}

pub fn replay(ctx: &Ctx, job: &Value) -> Option<Stats> {
    let rj = RJob::from_json(job, &FAMS)?;
    let mut st = Stats::new();
    observe(ctx, &mut st, &rj, None);
    Some(st)
}
