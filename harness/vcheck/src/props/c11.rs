//! C11 — automatic mask minimises the documented penalty over all eight masks.
//!
//! Observation points: the guarded recorder hook in the selection loop of
//! placement::place_on_matrix (mask, ranking score, candidate matrix) plus the public API
//! (forced-mask builds) as a cross-check of the hook itself.

use crate::adapter::{self, Outcome, Recorded};
use crate::fw::{flag, Ctx, Report, Tier};
use crate::job::{Job, GEN_COUNT};
use crate::pool;
use crate::stats::Stats;
use crate::symbol;
use oracle::decode::Matrix;
use oracle::layout::{region_map, Region};
use oracle::penalty::{self, Terms};
use oracle::rng::{mix, Rng};
use serde_json::json;

pub const ID: &str = "C11";
pub const FAMS: [&str; 7] = ["cell", "small-random", "witness", "forced", "tiny", "crafted-extremes", "cleanest-symbol-search"];
pub const KF: &str = "KF-C11-1";
pub const KF_WHAT: &str = "site=src/placement.rs:place_on_matrix column run/window penalty terms are taken from the transpose of the UN-masked placement (same constant for all eight candidates), so the emitted mask is not always minimal under the documented penalty";

/// witnesses listed with the known finding (byte mode, level M): always part of the workload
pub const WITNESSES: [&[u8]; 3] = [b"fast_qr C11 witness A", b"0123456789 penalty columns", b"HELLO WORLD"];

pub fn jobs(ctx: &Ctx) -> Vec<Job> {
    let caps = &ctx.caps;
    let mut jobs = Vec::new();
    let mut k = 0u64;
    let per_cell = ctx.tier.pick(6, ctx.scale(200));
    for v in 1..=40usize {
        for level in 0..4usize {
            for p in 0..per_cell {
                k += 1;
                let class = (k % 3) as usize;
                let cap = caps.cap(v, level, class);
                jobs.push(Job {
                    fam: FAMS[0],
                    class,
                    mode: Some(class),
                    level: Some(level),
                    version: Some(v),
                    mask: None,
                    len: match p {
                        0 => cap,
                        1 => 0,
                        _ => (mix(ctx.seed, k) as usize) % (cap + 1),
                    },
                    gen: if p == 1 { 0 } else if p == 2 { 1 + (k % 2) as usize } else { (k % GEN_COUNT as u64) as usize },
                    seed: mix(ctx.seed, k),
                    ..Default::default()
                });
            }
        }
    }
    let mut rng = Rng::new(ctx.seed ^ 0xc11);
    for _ in 0..ctx.tier.pick(2_000, ctx.scale(200_000)) {
        k += 1;
        let class = rng.below(3);
        let level = rng.below(4);
        jobs.push(Job { fam: FAMS[1], class, mode: None, level: Some(level), version: None, mask: None, len: rng.below(caps.cap(10, level, class) + 1), gen: rng.below(GEN_COUNT), seed: mix(ctx.seed, k), ..Default::default() });
    }
    // versions 1-3 are cheap (a 21x21 candidate costs microseconds) and their dark ratio moves in
    // coarse steps (1/441), so they are where the dark-ratio bands and ties are actually hit
    for _ in 0..ctx.tier.pick(20_000, ctx.scale(1_500_000)) {
        k += 1;
        let class = rng.below(3);
        let level = rng.below(4);
        let vmax = 1 + rng.below(3);
        jobs.push(Job { fam: FAMS[4], class, mode: if rng.chance(1, 2) { Some(class) } else { None }, level: if rng.chance(1, 4) { None } else { Some(level) }, version: None, mask: None, len: rng.below(caps.cap(vmax, level, class) + 1), gen: rng.below(GEN_COUNT), seed: mix(ctx.seed, k), ..Default::default() });
    }
    for w in WITNESSES {
        k += 1;
        jobs.push(Job { fam: FAMS[2], class: 2, mode: Some(2), level: Some(1), version: None, mask: None, len: w.len(), payload: Some(w.to_vec()), seed: k, ..Default::default() });
    }
    // crafted: the data area equals a mask pattern (one candidate uniformly light), its complement, finder
    // look-alike rows/columns, stripes ...: penalties at their extremes (far above 65535 for big versions),
    // huge gaps between candidates, and candidates that tie exactly
    let crafted_versions: Vec<usize> = ctx.tier.pick(vec![1, 2, 3, 5, 7, 10, 14, 20, 27, 32, 34, 36, 38, 40], (1..=40).collect());
    for &v in &crafted_versions {
        for level in 0..4usize {
            for t in 0..crate::craft::TARGET_COUNT {
                k += 1;
                if ctx.tier == Tier::Quick && v > 10 && (v + level + t) % 2 != 0 {
                    continue;
                }
                jobs.push(Job::crafted(FAMS[5], crate::job::CRAFT_TARGET, t, v, level, None, mix(ctx.seed, k)));
            }
        }
    }
    // long runs: a mostly random data area in which a few whole rows (or columns) follow mask k, so that candidate
    // k carries single-colour runs as long as the symbol is wide (N-2 with N far beyond 64, 127, 255) and is
    // still close to the minimum: the "N-2 per run" term decides the ranking here
    for v in ctx.tier.pick(vec![14usize, 20, 24, 28, 30, 32, 34, 36, 38, 40], (12..=40).collect()) {
        for level in 0..4usize {
            for i in 0..ctx.tier.pick(16u64, ctx.scale(120) as u64) {
                k += 1;
                let t = if i % 8 == 7 { crate::craft::TARGET_LONG_COLUMN_RUNS } else { crate::craft::TARGET_LONG_ROW_RUNS };
                let mut j = Job::crafted(FAMS[5], crate::job::CRAFT_TARGET, t, v, level, None, mix(ctx.seed, k));
                // feedback-directed (aux[2] = 1): the lines follow the mask the crate itself picks for the same
                // background without them (observe() asks first), so the candidate carrying the long runs is the
                // one that was winning: whether it still wins is decided by the run term alone
                j.aux[2] = (i % 4 != 0) as i64;
                jobs.push(j);
            }
        }
    }
    // feedback-directed search for unusually CLEAN symbols (versions 1-2): the payload is hill-climbed towards the lowest
    // ranking score the crate reports through the recorder; every improvement is a full C11 observation (eight
    // candidates, emitted mask minimal). Shortcuts for "good enough" candidates live at the low end of the scale.
    for i in 0..ctx.tier.pick(48usize, ctx.scale(1_000)) {
        k += 1;
        let v = 1 + i % 2;
        let level = (i / 2) % 4;
        let class = [2usize, 1, 2, 0][i % 4];
        let len = 1 + (mix(ctx.seed ^ 0xc1ea, k) as usize) % caps.cap(v, level, class).max(1);
        jobs.push(Job { fam: FAMS[6], class, mode: Some(class), level: Some(level), version: Some(v), mask: None, len, gen: 0, seed: mix(ctx.seed, k), ..Default::default() });
    }
    // forced masks always override
    for v in [1usize, 5, 13, 27, 40] {
        for mask in 0..8usize {
            k += 1;
            jobs.push(Job { fam: FAMS[3], class: 2, mode: Some(2), level: Some((k % 4) as usize), version: Some(v), mask: Some(mask), len: 1 + (k as usize % 6), gen: 0, seed: mix(ctx.seed, k), ..Default::default() });
        }
    }
    jobs
}

/// longest single-colour run of encoding-region modules along a row of the candidate (evidence only)
fn longest_row_run(m: &Matrix, version: usize) -> usize {
    let map = region_map(version);
    let mut best = 0;
    for r in 0..m.size {
        let mut run = 0;
        let mut last = None;
        for c in 0..m.size {
            if !map.is_data(r, c) {
                run = 0;
                last = None;
                continue;
            }
            let v = m.get(r, c);
            if Some(v) == last {
                run += 1;
            } else {
                run = 1;
                last = Some(v);
            }
            best = best.max(run);
        }
    }
    best
}

fn argmin(v: &[u32; 8]) -> Vec<usize> {
    let m = *v.iter().min().unwrap();
    (0..8).filter(|&i| v[i] == m).collect()
}

/// candidate as the public API shows it: forced-mask build with the format modules set light
fn candidate_via_api(base: &adapter::Config, mask: usize, version: usize) -> Result<Matrix, String> {
    let mut cfg = base.clone();
    cfg.mask = Some(mask);
    match adapter::build(&cfg) {
        Outcome::Ok(q) => {
            let mut m = adapter::matrix_of(&q);
            let map = region_map(version);
            if m.size != map.size {
                return Err(format!("the forced-mask build has side {}, version {version} has side {}", m.size, map.size));
            }
            for r in 0..m.size {
                for c in 0..m.size {
                    if map.at(r, c) == Region::Format {
                        m.set(r, c, false);
                    }
                }
            }
            Ok(m)
        }
        o => Err(o.describe()),
    }
}

fn cleanest_search(ctx: &Ctx, st: &mut Stats, job: &Job, idx: usize) {
    let mut rng = Rng::new(job.seed ^ 0xc1ea);
    let mut payload = job.payload();
    let span = [10usize, 45, 256][job.class];
    let sym = |class: usize, k: usize| -> u8 {
        match class {
            0 => b'0' + (k % 10) as u8,
            1 => oracle::tables::alnum_char(k % 45),
            _ => k as u8,
        }
    };
    let score_of = |p: &[u8]| -> Option<u32> {
        let cfg = adapter::Config { input: p.to_vec(), mode: job.mode, level: job.level, version: job.version, mask: None };
        let (out, rec) = adapter::build_recorded(&cfg);
        match out {
            Outcome::Ok(_) if !rec.is_empty() => rec.iter().map(|c| c.score).min(),
            _ => None,
        }
    };
    let check = |st: &mut Stats, p: &[u8]| -> bool {
        let j = Job { fam: FAMS[1], payload: Some(p.to_vec()), ..job.clone() };
        let before = st.violations.len();
        observe(ctx, st, &j, idx);
        st.violations.len() == before
    };
    if !check(st, &payload) {
        return;
    }
    let mut best = match score_of(&payload) {
        Some(s) => s,
        None => return, // recorder silent (harness built without hooks): nothing to steer by
    };
    for _ in 0..ctx.tier.pick(400, 1200) {
        if payload.is_empty() {
            break;
        }
        let at = rng.below(payload.len());
        let old = payload[at];
        payload[at] = sym(job.class, rng.below(span));
        if oracle::tables::classify(&payload) > job.class {
            payload[at] = old;
            continue;
        }
        match score_of(&payload) {
            Some(s) if s < best => {
                best = s;
                st.count("cleanest_search_improvements_checked", 1);
                if !check(st, &payload) {
                    return;
                }
            }
            Some(s) if s == best => {}
            _ => payload[at] = old,
        }
    }
    st.max("max_of_1000000_minus_lowest_ranking_score", 1_000_000u64.saturating_sub(best as u64));
}

pub fn observe(ctx: &Ctx, st: &mut Stats, job: &Job, idx: usize) {
    if job.fam == FAMS[6] {
        return cleanest_search(ctx, st, job, idx);
    }
    // feedback-directed long-run jobs: phase 1 asks the crate which mask wins for the background alone
    // (the chosen lines follow NO mask: k_override = 8 is out of range of seed % 8 and selects plain noise)
    let directed;
    let job = if job.fam == FAMS[5] && job.aux[0] as usize >= crate::craft::TARGET_COUNT && job.aux[2] == 1 && job.aux[1] == 0 {
        let mut probe = job.clone();
        probe.aux[1] = 9; // mask index 8: background only
        let winner = match adapter::build(&probe.config()) {
            Outcome::Ok(q) => q.mask.map(adapter::mask_no).unwrap_or(0),
            _ => 0,
        };
        let mut j = job.clone();
        j.aux[1] = winner as i64 + 1;
        directed = j;
        st.count("feedback_directed_long_run_builds", 1);
        &directed
    } else {
        job
    };
    let cfg = job.config();
    st.eval();
    let exp = match symbol::expect(&cfg, &ctx.caps) {
        Ok(e) => e,
        Err(why) => {
            st.inconclusive(format!("workload bug ({why}): {}", cfg.describe()));
            return;
        }
    };
    let (out, rec) = adapter::build_recorded(&cfg);
    let qr = match out {
        Outcome::Ok(q) => q,
        other => {
            flag(st, ID, ("no-symbol".into(), format!("a symbol exists (v{}), crate returned {}", exp.version, other.describe())), job, false);
            return;
        }
    };
    let emitted = qr.mask.map(adapter::mask_no).unwrap_or(99);
    let v = exp.version;
    // what the symbol physically says must agree with the reported mask
    let final_m = adapter::matrix_of(&qr);
    let (f1, _) = oracle::decode::read_format_copies(&final_m);
    let (_, phys_mask, d) = oracle::bch::decode_format(f1);
    if d > 3 || phys_mask != emitted {
        flag(st, ID, ("mask-field-vs-symbol".into(), format!("QRCode.mask says {emitted}, format information names {phys_mask}")), job, false);
        return;
    }

    if let Some(f) = cfg.mask {
        // (iii) a forced mask always overrides
        if emitted != f {
            flag(st, ID, ("forced-mask-overridden".into(), format!("mask {f} was forced, symbol uses mask {emitted}")), job, false);
            return;
        }
        st.count("forced_masks_confirmed", 1);
        st.distinct(job.key(&cfg.input));
        return;
    }

    // (i) eight distinct candidates over the same placed codewords
    let hook_used = !rec.is_empty();
    let cands: Vec<Matrix>;
    let mut scores: Option<[u32; 8]> = None;
    if hook_used {
        let mut by_mask: [Option<&Recorded>; 8] = [None; 8];
        for r in &rec {
            if r.mask >= 8 || by_mask[r.mask].is_some() {
                flag(st, ID, ("candidates-not-eight-distinct".into(), format!("selection loop evaluated masks {:?}", rec.iter().map(|r| r.mask).collect::<Vec<_>>())), job, false);
                return;
            }
            by_mask[r.mask] = Some(r);
        }
        if rec.len() != 8 {
            flag(st, ID, ("candidates-not-eight-distinct".into(), format!("selection loop evaluated {} candidates (masks {:?}), all eight ISO patterns must be tried", rec.len(), rec.iter().map(|r| r.mask).collect::<Vec<_>>())), job, false);
            return;
        }
        if rec.iter().any(|r| r.size != 17 + 4 * v) {
            flag(st, ID, ("candidate-size".into(), "candidate of the wrong size".into()), job, false);
            return;
        }
        cands = (0..8).map(|m| by_mask[m].unwrap().matrix()).collect();
        let mut s = [0u32; 8];
        for m in 0..8 {
            s[m] = by_mask[m].unwrap().score;
        }
        scores = Some(s);
        st.count("candidates_recorded", 8);
    } else {
        // hook silent: fall back to what the API shows
        st.count("hook_silent_fallback_builds", 1);
        let mut c = Vec::new();
        for m in 0..8 {
            match candidate_via_api(&cfg, m, v) {
                Ok(x) => c.push(x),
                Err(e) => {
                    flag(st, ID, ("no-symbol".into(), format!("forced mask {m}: {e}")), job, false);
                    return;
                }
            }
        }
        cands = c;
    }
    // all candidates un-mask to the same placed matrix
    // (format modules are left out: a candidate may or may not carry its own format information)
    let placed = symbol::unmasked(&cands[0], v, 0);
    let map_all = region_map(v);
    for m in 1..8 {
        let um = symbol::unmasked(&cands[m], v, m);
        if (0..um.dark.len()).any(|i| map_all.region[i] != Region::Format && um.dark[i] != placed.dark[i]) {
            flag(st, ID, ("candidates-differ-in-placement".into(), format!("candidate for mask {m} does not un-mask (ISO condition {m} over the encoding region) to the same placed codewords as candidate 0")), job, false);
            return;
        }
    }
    st.count("candidate_sets_consistent", 1);
    // and the emitted symbol is that placement too
    if symbol::unmasked(&final_m, v, emitted).dark.iter().zip(placed.dark.iter()).enumerate().any(|(i, (a, b))| a != b && region_map(v).region[i] == Region::Data) {
        flag(st, ID, ("emitted-differs-from-candidates".into(), format!("emitted symbol un-masked with {emitted} differs from the placed codewords the candidates share")), job, false);
        return;
    }
    // cross-check of the hook against the public API (validates hook placement)
    if hook_used && (idx % ctx.tier.pick(4, 16) == 0 || job.fam == FAMS[2]) {
        for m in 0..8 {
            match candidate_via_api(&cfg, m, v) {
                Ok(x) => {
                    // compare everything except format modules (the candidate may or may not carry them)
                    let map = region_map(v);
                    let differs = (0..x.dark.len()).any(|i| map.region[i] != Region::Format && x.dark[i] != cands[m].dark[i]);
                    if differs {
                        flag(st, ID, ("hook-vs-api".into(), format!("recorded candidate for mask {m} differs from the forced-mask-{m} build outside the format modules")), job, false);
                        return;
                    }
                }
                Err(e) => {
                    flag(st, ID, ("no-symbol".into(), format!("forced mask {m}: {e}")), job, false);
                    return;
                }
            }
        }
        st.count("hook_candidates_cross_checked_with_api", 8);
    }

    // (ii) emitted mask minimal under the documented penalty D
    let t: Vec<Terms> = cands.iter().map(|c| penalty::terms(c, v)).collect();
    let mut d_floor = [0u32; 8];
    let mut d_exact = [0u32; 8];
    for m in 0..8 {
        d_floor[m] = t[m].total_floor();
        d_exact[m] = t[m].total_exact();
        st.reach("dark_penalty_values", t[m].dark_floor as u64);
        if t[m].dark_floor != t[m].dark_exact {
            st.count("dark_ratio_readings_differ", 1);
        }
    }
    st.count("candidate_penalties_computed", 8);
    for x in &t {
        st.max("max_documented_penalty_seen", x.total_floor() as u64);
    }
    if job.fam == FAMS[5] {
        st.count("crafted_extreme_builds", 1);
        st.reach("crafted_targets", job.aux[0] as u64);
        if job.aux[0] as usize >= crate::craft::TARGET_COUNT {
            st.count("long_run_builds", 1);
            for c in &cands {
                st.max("max_run_length_in_a_candidate", longest_row_run(c, v) as u64);
            }
        }
    }
    let min_ok = argmin(&d_floor).contains(&emitted) || argmin(&d_exact).contains(&emitted);
    // diagnostics: what is the recorded ranking score equal to?
    let (ucr, ucw) = penalty::column_terms(&placed, v);
    let mut k_floor = [0u32; 8];
    let mut k_exact = [0u32; 8];
    for m in 0..8 {
        k_floor[m] = t[m].without_columns() + t[m].dark_floor + ucr + ucw;
        k_exact[m] = t[m].without_columns() + t[m].dark_exact + ucr + ucw;
    }
    if let Some(s) = scores {
        if s == d_floor || s == d_exact {
            st.count("ranking_score_equals_documented_penalty", 1);
        } else if s == k_floor || s == k_exact {
            st.count("ranking_score_equals_penalty_with_unmasked_columns", 1);
        } else {
            st.count("ranking_score_other", 1);
        }
    }
    st.reach("emitted_masks", emitted as u64);
    st.reach("version_level", (v * 4 + exp.level) as u64);
    st.distinct(job.key(&cfg.input));
    // Without the recorder (hook-less child builds) the candidates are reconstructed through the public API, and whether
    // a candidate carries its format information WHILE IT IS SCORED is not observable there (nor pinned by the property:
    // "tried on the same placed codewords"). The reconstruction above leaves the format modules light, as the pinned tree
    // does; before anything is reported the other reading (format information present, as ISO prescribes) is judged too.
    let mut min_ok = min_ok;
    let mut kf_other_reading = false;
    if !min_ok && !hook_used {
        let mut with_format: Vec<Matrix> = Vec::new();
        for m in 0..8 {
            let mut c2 = cfg.clone();
            c2.mask = Some(m);
            if let Outcome::Ok(q) = adapter::build(&c2) {
                with_format.push(adapter::matrix_of(&q));
            }
        }
        if with_format.len() == 8 {
            let t2: Vec<Terms> = with_format.iter().map(|c| penalty::terms(c, v)).collect();
            let f2: Vec<u32> = t2.iter().map(|x| x.total_floor()).collect();
            let e2: Vec<u32> = t2.iter().map(|x| x.total_exact()).collect();
            let mn = |x: &Vec<u32>| (0..8).filter(|&i| x[i] == *x.iter().min().unwrap()).collect::<Vec<_>>();
            if mn(&f2).contains(&emitted) || mn(&e2).contains(&emitted) {
                min_ok = true;
                st.count("emitted_mask_minimal_when_candidates_carry_their_format_information", 1);
            } else {
                let k2f: Vec<u32> = t2.iter().map(|x| x.without_columns() + x.dark_floor + ucr + ucw).collect();
                let k2e: Vec<u32> = t2.iter().map(|x| x.without_columns() + x.dark_exact + ucr + ucw).collect();
                kf_other_reading = mn(&k2f).contains(&emitted) || mn(&k2e).contains(&emitted);
            }
        }
    }
    if min_ok {
        st.count("emitted_mask_minimal", 1);
    } else {
        // is this exactly the listed finding? emitted in argmin of "column terms frozen at the un-masked placement"
        let is_kf = argmin(&k_floor).contains(&emitted) || argmin(&k_exact).contains(&emitted) || kf_other_reading;
        if is_kf {
            st.known(KF, KF_WHAT.to_string());
            st.count("emitted_mask_not_minimal_known_finding", 1);
        } else {
            flag(
                st,
                ID,
                ("mask-not-minimal".into(), format!(
                    "emitted mask {emitted} has documented penalty {}, minimum over the eight candidates is {} (masks {:?}); penalties {:?}; recorded ranking scores {:?}; this is NOT the listed finding {KF} (its predicate would have chosen one of {:?})",
                    d_floor[emitted], d_floor.iter().min().unwrap(), argmin(&d_floor), d_floor, scores, argmin(&k_floor)
                )),
                job,
                false,
            );
            return;
        }
    }
    st.sample(131, || {
        json!({"options": cfg.describe(), "input": adapter::short_hex(&cfg.input), "emitted_mask": emitted,
               "documented_penalty_per_mask": d_floor.to_vec(), "recorded_ranking_scores": scores.map(|s| s.to_vec()),
               "minimal": min_ok, "hook": hook_used})
    });
}

pub fn run(ctx: &Ctx) -> Report {
    let jobs = jobs(ctx);
    let st = pool::run(&jobs, ctx.remaining(), |st, job, i| observe(ctx, st, job, i));
    let mut rep = Report::new(
        st,
        "jobs = all 160 (version, level) cells x payloads {capacity-filling, empty, constant, random} + random small inputs (v<=10, automatic version/mode) + 12,000 (thorough 300,000) tiny inputs for versions 1-3 (coarse dark-ratio steps: the bands of the dark-ratio term and ties are hit there) + the three witness payloads of KF-C11-1 + forced-mask builds + crafted byte payloads whose data area equals each mask pattern / its complement / uniform / finder look-alike rows and columns / stripes (24 targets x versions x levels: one candidate uniformly light or dark, penalties far above 65535, exact ties); each automatic build is run with the candidate recorder hook armed: the eight recorded candidates must be eight distinct masks over identical placed codewords (checked by un-masking with the ISO conditions) and must equal the forced-mask builds seen through the public API; an independent scan computes the documented penalty (40 per 1011101 window, N-2 per run >=5 inside the encoding region over rows and columns of the candidate, 3 per 2x2 block, 10 per 5% dark-ratio step; both readings of an exact 5% boundary accepted) and the emitted mask must be in the argmin; ties and order-equivalent ranking scores are not alarms; a miss is classified against the predicate of known finding KF-C11-1 (emitted mask in argmin when column terms are frozen at the un-masked placement); distinct key = (options, len, payload hash); every automatic build non-trivial",
    );
    rep.expected_sets = vec![("version_level", 160), ("emitted_masks", 8), ("dark_penalty_values", 10)];
    rep.required_sets = vec![("version_level", 160)];
    rep.min_evaluations = 900;
    rep.assumptions = vec![
        "the documented penalty is the doc comment of score::score and the statement of C11; 'encoding region' is the oracle's data region".into(),
        "hook: one guarded call in the selection loop copies (mask, score, candidate) out; validated against forced-mask builds on a subset of every run".into(),
    ];
    rep
}

pub fn replay(ctx: &Ctx, job: &serde_json::Value) -> Option<Stats> {
    let job = Job::from_json(job, &FAMS)?;
    let mut st = Stats::new();
    observe(ctx, &mut st, &job, 0);
    Some(st)
}
