//! Compact, serialisable description of one execution (so that 10^6 of them fit in memory and
//! any one of them can be written to a replay file and re-run alone).

use crate::adapter::{hex, unhex, Config};
use oracle::rng::Rng;
use oracle::tables;
use serde_json::{json, Value};

pub const GEN_RANDOM: usize = 0;
pub const GEN_LOW: usize = 1;
pub const GEN_HIGH: usize = 2;
pub const GEN_PAD: usize = 3;
pub const GEN_MODEIND: usize = 4;
pub const GEN_RAMP: usize = 5;
pub const GEN_SPARSE: usize = 6;
pub const GEN_TOKENS: usize = 7;
pub const GEN_ZERORUN: usize = 8;
pub const GEN_PERIODIC: usize = 9;
pub const GEN_ALT: usize = 10;
pub const GEN_NEARCLASS: usize = 11;
pub const GEN_BLANKS: usize = 12;
pub const GEN_LATIN1: usize = 13;
pub const GEN_UTF8MIX: usize = 14;
pub const GEN_ESCAPED: usize = 15;
pub const GEN_REPEAT: usize = 16;
/// 17 generators: coprime with every other modulus the workloads rotate on (2, 3, 4, 5, 8, 9, 16)
pub const GEN_COUNT: usize = 17;
pub const GEN_NAMES: [&str; 17] = [
    "random", "low", "high", "pad-lookalike", "mode-indicator-lookalike", "ramp", "sparse", "real-world-tokens", "zero-runs", "periodic", "alternating-extremes", "narrower-class-in-disguise", "blank-padded",
    "latin1-text-as-utf8", "utf8-multibyte-mix", "escaped-text", "repeated-token",
];

/// UTF-8 text of exactly `len` bytes drawn from `chars` (padded with ASCII letters where a character no longer fits)
fn utf8_exact(len: usize, chars: &[char], rng: &mut Rng) -> Vec<u8> {
    let mut out = String::new();
    while out.len() < len {
        let c = *rng.pick(chars);
        if out.len() + c.len_utf8() <= len {
            out.push(c);
        } else {
            out.push((b'a' + rng.below(26) as u8) as char);
        }
    }
    out.into_bytes()
}

/// What people actually put into QR codes, plus byte sequences with a meaning of their own in some
/// layer (byte order marks, GS1 / ECI / AIM escapes, control characters, Shift-JIS and UTF-8
/// multi-byte sequences). The first group is used as a PREFIX half of the time: content-dependent
/// behaviour usually keys on how a payload starts.
pub const BYTE_PREFIXES: &[&[u8]] = &[
    b"https://", b"http://", b"HTTPS://", b"HTTP://", b"Https://", b"www.", b"WWW.", b"ftp://", b"mailto:", b"MAILTO:", b"tel:+", b"TEL:", b"sms:", b"SMSTO:",
    b"geo:", b"WIFI:T:WPA;S:", b"WIFI:S:", b"BEGIN:VCARD\nVERSION:3.0\n", b"BEGIN:VEVENT\n", b"MECARD:N:", b"MATMSG:TO:", b"bitcoin:", b"otpauth://totp/",
    b"BCD\n002\n1\nSCT\n", b"\xEF\xBB\xBF", b"\xFF\xFE", b"\xFE\xFF", b"\xEF\xBB", b"]C1", b"]Q3", b"]d2", b"\\000026", b"\x1d", b"[)>\x1e06\x1d", b"%PDF-", b"<?xml ", b"{\"", b"data:image/png;base64,",
    b"\x00", b"\x00\x00\x00", b"\x7f", b"\x80", b"\xff\xff", b" ", b"\n", b"\r\n", b"\t", b"0", b"00000000", b"A", b"a",
];
const BYTE_TOKENS: &[&[u8]] = &[
    b"example.com", b"EXAMPLE.COM", b"/", b"?q=", b"&id=", b"=", b"#", b"%20", b"@", b".", b":", b";", b";;", b",", b"\n", b"\r\n", b"\t", b" ", b"\x00", b"\x1d", b"\x1e", b"\x04",
    b";P:", b";H:true", b"END:VCARD", b"FN:", b"TEL;TYPE=CELL:", b"\xE6\x97\xA5\xE6\x9C\xAC", b"\xC3\xA9", b"\xF0\x9F\x98\x80", b"\x93\xFA\x96\x7B", b"\xE4\xAA", b"\x81\x40",
    b"\xEF\xBB\xBF", b"\xEC\x11", b"\x11\xEC", b"\xEC", b"\x40", b"\x20", b"\x10", b"\x70", b"\x80", b"\xFF", b"0123456789", b"ABCDEFGHIJKLMNOPQRSTUVWXYZ", b"abcdefghijklmnopqrstuvwxyz", b"+33612345678", b"1234",
];
pub const ALNUM_PREFIXES: &[&[u8]] = &[
    b"HTTPS://", b"HTTP://", b"WWW.", b"FTP://", b"MAILTO:", b"TEL:+", b"TEL:", b"SMSTO:", b"SMS:", b"GEO:", b"WIFI:T:WPA", b"WIFI:S:", b"BEGIN:VCARD", b"MECARD:N:", b"MATMSG:TO:", b"URN:", b"BITCOIN:",
    b"%", b"$", b" ", b"*", b"+", b"-", b".", b"/", b":", b"0", b"00", b"A", b"Z", b"9:", b"1/2", b"3.14", b"-1", b"$100", b"100%",
    b"12:34:56", b"2024:06:30:23:59", b"00:00:00:00", b"192.168.0.1:8080", b"1-800-555-0199", b"+1 555 0100", b"0123456789:", b"99999999:9999999",
];

/// Non-ASCII characters that ASCII-minded code confuses with digits, letters or blanks (`char::is_numeric`,
/// `is_alphanumeric`, `is_whitespace`, case mapping): digits of other scripts, fullwidth forms, superscripts,
/// fractions, Roman numerals, non-breaking and ideographic spaces. All of them are plain bytes >= 0x80 to a QR encoder.
pub const UNICODE_LOOKALIKES: &[&str] = &[
    "\u{FF11}\u{FF12}\u{FF13}", "\u{0663}\u{0664}", "\u{0967}\u{0968}", "12\u{00BD}", "2\u{00B2}", "\u{2460}\u{2461}", "\u{216B}", "\u{FF21}\u{FF22}\u{FF23}", "\u{FF41}",
    "\u{00C9}COLE", "STRA\u{00DF}E", "\u{0130}", "A\u{00A0}B", "A\u{3000}B", "\u{2007}12", "1\u{202F}000", "\u{FF10}", "\u{06F0}\u{06F1}\u{06F2}\u{06F3}\u{06F4}\u{06F5}\u{06F6}\u{06F7}\u{06F8}",
    "\u{FF04}100", "100\u{FF05}", "\u{FF0B}33", "\u{2212}1", "3\u{FF0E}14", "12\u{FF1A}30",
];
const ALNUM_TOKENS: &[&[u8]] = &[
    b"EXAMPLE.COM", b"/", b".", b":", b"-", b"+", b"*", b"%", b"$", b" ", b"HELLO WORLD", b"0123456789", b"ABCDEFGHIJKLMNOPQRSTUVWXYZ", b"EC11", b"QR", b"2024-01-01", b"12:30", b"555-1234", b"%20", b"A1", b"Z9",
];

/// Deterministic sweep over the dictionary: every prefix alone, followed by a short and by a long tail of
/// its own class, and (byte class) followed by text. Returns (class, payload) with the class pinned.
pub fn prefix_sweep(seed: u64) -> Vec<(usize, Vec<u8>)> {
    let mut out: Vec<(usize, Vec<u8>)> = Vec::new();
    let mut rng = Rng::new(seed ^ 0x9e37_79b9);
    for (class, pre) in [(1usize, ALNUM_PREFIXES), (2usize, BYTE_PREFIXES)] {
        for p in pre {
            for tail_len in [0usize, 3, 14, 90] {
                let mut v = p.to_vec();
                let span = if class == 1 { 45 } else { 256 };
                for _ in 0..tail_len {
                    v.push(alphabet(class, rng.below(span)));
                }
                out.push((tables::classify(&v), v));
            }
            if class == 2 {
                let mut v = p.to_vec();
                v.extend_from_slice(b"example.com/path?x=1");
                out.push((tables::classify(&v), v));
                let mut v = p.to_vec();
                v.extend_from_slice(b"EXAMPLE.COM/QR");
                out.push((tables::classify(&v), v));
            } else {
                let mut v = p.to_vec();
                v.extend_from_slice(b"EXAMPLE.COM/QR");
                out.push((tables::classify(&v), v));
            }
        }
    }
    out
}

fn tokens_payload(class: usize, len: usize, rng: &mut Rng) -> Vec<u8> {
    let mut p: Vec<u8> = Vec::with_capacity(len + 32);
    if class == 0 {
        // digits only: phone-number-like groups with runs of one digit
        while p.len() < len {
            let d = b'0' + rng.below(10) as u8;
            let long = rng.chance(1, 4);
            let run = 1 + rng.below(if long { 12 } else { 3 });
            p.extend(std::iter::repeat(d).take(run));
        }
    } else {
        let (pre, tok) = if class == 1 { (ALNUM_PREFIXES, ALNUM_TOKENS) } else { (BYTE_PREFIXES, BYTE_TOKENS) };
        if rng.chance(1, 2) {
            p.extend_from_slice(pre[rng.below(pre.len())]);
        }
        while p.len() < len {
            match rng.below(4) {
                0 => p.extend_from_slice(pre[rng.below(pre.len())]),
                1 | 2 => p.extend_from_slice(tok[rng.below(tok.len())]),
                _ => {
                    let span = if class == 1 { 45 } else { 256 };
                    for _ in 0..1 + rng.below(6) {
                        p.push(alphabet(class, rng.below(span)));
                    }
                }
            }
        }
    }
    p.truncate(len);
    p
}

pub const CRAFT_TARGET: i64 = 1;
pub const CRAFT_SHAPE: i64 = 2;
/// aux[0] = wanted number of dark modules of the final symbol (needs forced version, level, mask); the payload is
/// found by search (craft::payload_for_dark_count) when the job is materialised
pub const CRAFT_DARK: i64 = 3;

#[derive(Clone, Debug, Default)]
pub struct Job {
    /// workload family inside the property (free text, part of the replay file)
    pub fam: &'static str,
    /// alphabet class of the payload: 0 digits, 1 alphanumeric (with a non-digit), 2 bytes (with a non-alnum byte)
    pub class: usize,
    pub mode: Option<usize>,
    pub level: Option<usize>,
    pub version: Option<usize>,
    pub mask: Option<usize>,
    pub len: usize,
    pub gen: usize,
    pub seed: u64,
    pub aux: [i64; 4],
    /// explicit payload (witnesses); overrides (class, len, gen, seed)
    pub payload: Option<Vec<u8>>,
}

pub fn alphabet(class: usize, k: usize) -> u8 {
    match class {
        0 => b'0' + (k % 10) as u8,
        1 => tables::alnum_char(k % 45),
        _ => k as u8,
    }
}

/// Deterministic payload for (class, len, gen, seed). The result always has exactly the class
/// asked for (so automatic mode selection equals `class`) whenever len >= 1.
pub fn gen_payload(class: usize, len: usize, gen: usize, seed: u64) -> Vec<u8> {
    let mut rng = Rng::new(seed ^ 0x7061_796c_6f61_64);
    let span = [10usize, 45, 256][class];
    let mut p: Vec<u8> = match gen {
        GEN_LOW => vec![alphabet(class, 0); len],
        GEN_HIGH => vec![alphabet(class, span - 1); len],
        GEN_PAD => (0..len)
            .map(|i| match class {
                0 => b"236017"[i % 6],
                1 => b"EC11"[i % 4],
                _ => [0xEC, 0x11][i % 2],
            })
            .collect(),
        GEN_MODEIND => (0..len)
            .map(|i| match class {
                0 => b"0124"[i % 4],
                1 => b"0124 "[i % 5],
                _ => [0x40, 0x20, 0x10, 0x00, 0x04, 0x02, 0x01][i % 7],
            })
            .collect(),
        GEN_RAMP => (0..len).map(|i| alphabet(class, (i * 131 + (i / 251) * 17 + 7 + (seed as usize % 97)) % span)).collect(),
        GEN_SPARSE => (0..len).map(|_| if rng.chance(1, 12) { alphabet(class, rng.below(span)) } else { alphabet(class, 0) }).collect(),
        GEN_TOKENS => tokens_payload(class, len, &mut rng),
        GEN_ZERORUN => {
            // random content with two or three long stretches of the zero symbol somewhere inside
            // (whole interior blocks of zero codewords while the first block is not)
            let mut p: Vec<u8> = (0..len).map(|_| alphabet(class, rng.below(span))).collect();
            for _ in 0..2 + rng.below(2) {
                if len >= 4 {
                    let a = rng.below(len);
                    let b = (a + 1 + rng.below(len - a)).min(len);
                    for x in &mut p[a..b] {
                        *x = alphabet(class, 0);
                    }
                }
            }
            p
        }
        GEN_PERIODIC => {
            let period = [2usize, 3, 4, 5, 7, 8, 16, 19, 31][rng.below(9)];
            let unit: Vec<u8> = (0..period).map(|_| alphabet(class, rng.below(span))).collect();
            (0..len).map(|i| unit[i % period]).collect()
        }
        GEN_ALT => {
            let ph = (seed % 2) as usize;
            (0..len).map(|i| if (i + ph) % 2 == 0 { alphabet(class, 0) } else { alphabet(class, span - 1) }).collect()
        }
        // text that WOULD belong to the next narrower class after a harmless-looking normalisation: lower/mixed-case
        // text whose upper-casing is alphanumeric (class byte), digits with a few separators (class alphanumeric),
        // digits with leading zeros (class numeric) - "helpful" case folding, trimming or re-classification shows here
        GEN_NEARCLASS => (0..len)
            .map(|i| match class {
                0 => {
                    if i < 1 + (seed as usize % 5) {
                        b'0'
                    } else {
                        b'0' + rng.below(10) as u8
                    }
                }
                1 => {
                    if rng.chance(1, 6) {
                        *rng.pick(b" -+./:")
                    } else {
                        b'0' + rng.below(10) as u8
                    }
                }
                _ => *rng.pick(b"abcdefghijklmnopqrstuvwxyzabcdefghijklmnopqrstuvwxyz0123456789 $%*+-./:ABCXYZ"),
            })
            .collect(),
        // leading / trailing blanks and line ends around ordinary content of the class (trimming changes the payload,
        // for class byte also the class)
        GEN_BLANKS => {
            let mut p: Vec<u8> = (0..len).map(|_| alphabet(class, rng.below(span))).collect();
            let (lead, trail) = (rng.below(4).min(len / 3), (1 + rng.below(4)).min(len / 3));
            let blank = |rng: &mut Rng| match class {
                0 => b'0',
                1 => b' ',
                _ => *rng.pick(b" \t\n\r "),
            };
            for x in p.iter_mut().take(lead) {
                *x = blank(&mut rng);
            }
            for x in p.iter_mut().rev().take(trail) {
                *x = blank(&mut rng);
            }
            p
        }
        // byte-class content that is TEXT in some encoding: Latin-1 letters written as UTF-8 (every character at or
        // below U+00FF: a transcoder would shorten it), mixed 2/3/4-byte characters, escaped text, one token repeated.
        // For the narrower classes: digit groups / alphanumeric tokens repeated with a separator of the class.
        GEN_LATIN1 if class == 2 => utf8_exact(len, &['é', 'è', 'ü', 'ö', 'ß', 'ñ', 'ç', 'Å', 'ø', '£', '§', '°', '½', 'ÿ', '\u{a0}', 'e', 'r', 'n', ' ', 'a'], &mut rng),
        GEN_UTF8MIX if class == 2 => utf8_exact(len, &['é', '中', '文', '🚀', 'Ω', 'ж', '€', '\u{200b}', '\u{feff}', 'a', '1', ' '], &mut rng),
        GEN_ESCAPED if class == 2 => {
            let toks: [&[u8]; 12] = [b"%20", b"%C3%A9", b"%2F", b"\\n", b"\\u00e9", b"&amp;", b"&#233;", b"+", b"=", b"a", b"b", b"1"];
            let mut p = Vec::with_capacity(len + 8);
            while p.len() < len {
                let t: &[u8] = toks[rng.below(toks.len())];
                p.extend_from_slice(t);
            }
            p.truncate(len);
            p
        }
        GEN_LATIN1 | GEN_UTF8MIX | GEN_ESCAPED | GEN_REPEAT => {
            let tl = 2 + rng.below(7);
            let tok: Vec<u8> = (0..tl).map(|_| alphabet(class, rng.below(span))).collect();
            let sep = match class {
                0 => b'0',
                1 => *rng.pick(b" -/:."),
                _ => *rng.pick(b",;|\n\t "),
            };
            (0..len).map(|i| if i % (tl + 1) == tl { sep } else { tok[i % (tl + 1)] }).collect()
        }
        _ => (0..len).map(|_| alphabet(class, rng.below(span))).collect(),
    };
    // pin the class
    if len >= 1 && tables::classify(&p) != class {
        let pos = if gen == GEN_RANDOM || gen == GEN_SPARSE || gen == GEN_ZERORUN { rng.below(len) } else { len - 1 };
        p[pos] = match class {
            1 => *rng.pick(b"ABCXYZ $%*+-./:"),
            2 if gen == GEN_NEARCLASS || gen == GEN_BLANKS => *rng.pick(b"az"),
            2 => *rng.pick(&[0x00u8, 0x0a, b'a', b'z', b',', 0x7f, 0x80, 0xff, b'!', b'_']),
            _ => p[pos],
        };
    }
    p
}

impl Job {
    pub fn payload(&self) -> Vec<u8> {
        match (&self.payload, self.aux[3], self.version, self.level) {
            (Some(p), _, _, _) => p.clone(),
            // crafted payloads (see craft.rs): aux[3] = 1 matrix target aux[0]; aux[3] = 2 codeword shape aux[0]
            (None, CRAFT_TARGET, Some(v), Some(l)) => crate::craft::payload_for_target(v, l, self.aux[0] as usize, self.seed, if self.aux[1] > 0 { Some(self.aux[1] as usize - 1) } else { None }),
            (None, CRAFT_SHAPE, Some(v), Some(l)) => crate::craft::payload_for_shape(v, l, self.aux[0] as usize, self.seed),
            _ => gen_payload(self.class, self.len, self.gen, self.seed),
        }
    }
    /// Jobs whose payload has to be searched for (CRAFT_DARK) are turned into jobs with an explicit payload, once, on
    /// the worker thread. None = the search did not reach the target (recorded by the caller, not a verdict).
    pub fn materialise(&self) -> Option<Job> {
        if self.aux[3] != CRAFT_DARK || self.payload.is_some() {
            return Some(self.clone());
        }
        let (v, l, m) = (self.version?, self.level?, self.mask?);
        let p = crate::craft::payload_for_dark_count(v, l, m, self.aux[0] as usize, self.seed, 3_000)?;
        let mut j = self.clone();
        j.len = p.len();
        j.payload = Some(p);
        Some(j)
    }
    /// byte-mode job at a forced (version, level, mask) whose final symbol has exactly `k` dark modules
    pub fn dark_count(fam: &'static str, k: usize, v: usize, level: usize, mask: usize, seed: u64) -> Job {
        Job { fam, class: 2, mode: Some(2), level: Some(level), version: Some(v), mask: Some(mask), len: oracle::tables::capacity(v, level, 2), gen: 0, seed, aux: [k as i64, 0, 0, CRAFT_DARK], payload: None }
    }
    /// (version, k) pairs for which a dark-module count of k is within reach: multiples of 4096 and powers of two
    pub fn dark_count_cells() -> Vec<(usize, usize)> {
        vec![(1, 256), (8, 1024), (12, 2048), (13, 2048), (18, 4096), (19, 4096), (18, 4096), (27, 8192), (26, 8192), (35, 12288), (34, 12288), (40, 16384)]
    }
    /// byte-mode job at a forced (version, level) whose payload is crafted (kind = CRAFT_TARGET / CRAFT_SHAPE)
    pub fn crafted(fam: &'static str, kind: i64, which: usize, v: usize, level: usize, mask: Option<usize>, seed: u64) -> Job {
        Job { fam, class: 2, mode: Some(2), level: Some(level), version: Some(v), mask, len: oracle::tables::capacity(v, level, 2), gen: 0, seed, aux: [which as i64, 0, 0, kind], payload: None }
    }
    pub fn config(&self) -> Config {
        Config { input: self.payload(), mode: self.mode, level: self.level, version: self.version, mask: self.mask }
    }
    pub fn to_json(&self) -> Value {
        json!({
            "fam": self.fam, "class": self.class, "mode": self.mode, "level": self.level,
            "version": self.version, "mask": self.mask, "len": self.len, "gen": self.gen,
            "seed": self.seed.to_string(), "aux": self.aux,
            "payload_hex": self.payload.as_ref().map(|p| hex(p)),
            // convenience for humans: the actual bytes this job builds
            "input_hex": hex(&self.payload()),
        })
    }
    pub fn from_json(v: &Value, fams: &[&'static str]) -> Option<Job> {
        let g = |k: &str| v.get(k).and_then(|x| x.as_u64()).map(|x| x as usize);
        let fam_s = v.get("fam")?.as_str()?;
        let fam = fams.iter().find(|f| **f == fam_s).copied()?;
        let mut aux = [0i64; 4];
        if let Some(a) = v.get("aux").and_then(|a| a.as_array()) {
            for (i, x) in a.iter().take(4).enumerate() {
                aux[i] = x.as_i64().unwrap_or(0);
            }
        }
        Some(Job {
            fam,
            class: g("class")?,
            mode: g("mode"),
            level: g("level"),
            version: g("version"),
            mask: g("mask"),
            len: g("len")?,
            gen: g("gen")?,
            seed: v.get("seed")?.as_str()?.parse().ok()?,
            aux,
            payload: match v.get("payload_hex") {
                Some(Value::String(s)) => Some(unhex(s)?),
                _ => None,
            },
        })
    }
    /// A sibling execution: the SAME payload with one option changed (another mask, a lower level, the mode left
    /// automatic or forced to Byte), chosen so that a symbol still exists. Monitors run it on the same thread right
    /// after the original: anything the crate keeps between calls and keys on too little (payload only, payload +
    /// version ...) would hand the sibling the original's data. None for crafted jobs (their payload depends on the
    /// cell) and when no admissible variation exists.
    pub fn sibling(&self, caps: &tables::Caps) -> Option<Job> {
        if self.aux[3] != 0 {
            return None;
        }
        let payload = self.payload();
        let class = tables::classify(&payload);
        let mut s = self.clone();
        s.payload = Some(payload.clone());
        let fits = |j: &Job| {
            let mode = j.mode.unwrap_or(class);
            if !tables::mode_accepts(mode, &payload) {
                return false;
            }
            match caps.vmin(j.level.unwrap_or(tables::Q), mode, payload.len()) {
                Some(vm) => j.version.map_or(true, |f| f >= vm),
                None => false,
            }
        };
        for attempt in 0..3u64 {
            let mut t = s.clone();
            match (self.seed.wrapping_add(attempt)) % 3 {
                0 => t.mask = Some((self.mask.unwrap_or(7) + 1 + (self.seed % 7) as usize) % 8),
                1 => t.level = Some(self.level.unwrap_or(tables::Q).saturating_sub(1)),
                _ => t.mode = if self.mode.is_some() { if self.mode == Some(2) { None } else { Some(2) } } else { Some(class) },
            }
            if (t.mask, t.level, t.mode) != (self.mask, self.level, self.mode) && fits(&t) {
                return Some(t);
            }
        }
        None
    }
    /// key for "distinct" counting
    pub fn key(&self, payload: &[u8]) -> u64 {
        let mut h = oracle::rng::fnv(payload);
        for x in [
            self.mode.map_or(9, |x| x),
            self.level.map_or(9, |x| x),
            self.version.map_or(0, |x| x),
            self.mask.map_or(9, |x| x),
            payload.len(),
        ] {
            h = oracle::rng::mix(h, x as u64);
        }
        h
    }
}
