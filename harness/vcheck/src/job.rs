//! Compact, serialisable description of one execution (so that 10^6 of them fit in memory and
//! any one of them can be written to a replay file and re-run alone).

use crate::adapter::{hex, unhex, Config};
use oracle::rng::Rng;
use oracle::tables;
use serde_json::{json, Value};

pub const GEN_RANDOM: usize = 0;
pub const GEN_LOW: usize = 1;
pub const GEN_HIGH: usize = 2;
pub const GEN_PAD: usize = 3;
pub const GEN_MODEIND: usize = 4;
pub const GEN_RAMP: usize = 5;
pub const GEN_SPARSE: usize = 6;
pub const GEN_COUNT: usize = 7;
pub const GEN_NAMES: [&str; 7] = ["random", "low", "high", "pad-lookalike", "mode-indicator-lookalike", "ramp", "sparse"];

#[derive(Clone, Debug, Default)]
pub struct Job {
    /// workload family inside the property (free text, part of the replay file)
    pub fam: &'static str,
    /// alphabet class of the payload: 0 digits, 1 alphanumeric (with a non-digit), 2 bytes (with a non-alnum byte)
    pub class: usize,
    pub mode: Option<usize>,
    pub level: Option<usize>,
    pub version: Option<usize>,
    pub mask: Option<usize>,
    pub len: usize,
    pub gen: usize,
    pub seed: u64,
    pub aux: [i64; 4],
    /// explicit payload (witnesses); overrides (class, len, gen, seed)
    pub payload: Option<Vec<u8>>,
}

fn alphabet(class: usize, k: usize) -> u8 {
    match class {
        0 => b'0' + (k % 10) as u8,
        1 => tables::alnum_char(k % 45),
        _ => k as u8,
    }
}

/// Deterministic payload for (class, len, gen, seed). The result always has exactly the class
/// asked for (so automatic mode selection equals `class`) whenever len >= 1.
pub fn gen_payload(class: usize, len: usize, gen: usize, seed: u64) -> Vec<u8> {
    let mut rng = Rng::new(seed ^ 0x7061_796c_6f61_64);
    let span = [10usize, 45, 256][class];
    let mut p: Vec<u8> = match gen {
        GEN_LOW => vec![alphabet(class, 0); len],
        GEN_HIGH => vec![alphabet(class, span - 1); len],
        GEN_PAD => (0..len)
            .map(|i| match class {
                0 => b"236017"[i % 6],
                1 => b"EC11"[i % 4],
                _ => [0xEC, 0x11][i % 2],
            })
            .collect(),
        GEN_MODEIND => (0..len)
            .map(|i| match class {
                0 => b"0124"[i % 4],
                1 => b"0124 "[i % 5],
                _ => [0x40, 0x20, 0x10, 0x00, 0x04, 0x02, 0x01][i % 7],
            })
            .collect(),
        GEN_RAMP => (0..len).map(|i| alphabet(class, (i * 131 + (i / 251) * 17 + 7 + (seed as usize % 97)) % span)).collect(),
        GEN_SPARSE => (0..len).map(|_| if rng.chance(1, 12) { alphabet(class, rng.below(span)) } else { alphabet(class, 0) }).collect(),
        _ => (0..len).map(|_| alphabet(class, rng.below(span))).collect(),
    };
    // pin the class
    if len >= 1 && tables::classify(&p) != class {
        let pos = if gen == GEN_RANDOM || gen == GEN_SPARSE { rng.below(len) } else { len - 1 };
        p[pos] = match class {
            1 => *rng.pick(b"ABCXYZ $%*+-./:"),
            2 => *rng.pick(&[0x00u8, 0x0a, b'a', b'z', b',', 0x7f, 0x80, 0xff, b'!', b'_']),
            _ => p[pos],
        };
    }
    p
}

impl Job {
    pub fn payload(&self) -> Vec<u8> {
        match &self.payload {
            Some(p) => p.clone(),
            None => gen_payload(self.class, self.len, self.gen, self.seed),
        }
    }
    pub fn config(&self) -> Config {
        Config { input: self.payload(), mode: self.mode, level: self.level, version: self.version, mask: self.mask }
    }
    pub fn to_json(&self) -> Value {
        json!({
            "fam": self.fam, "class": self.class, "mode": self.mode, "level": self.level,
            "version": self.version, "mask": self.mask, "len": self.len, "gen": self.gen,
            "seed": self.seed.to_string(), "aux": self.aux,
            "payload_hex": self.payload.as_ref().map(|p| hex(p)),
            // convenience for humans: the actual bytes this job builds
            "input_hex": hex(&self.payload()),
        })
    }
    pub fn from_json(v: &Value, fams: &[&'static str]) -> Option<Job> {
        let g = |k: &str| v.get(k).and_then(|x| x.as_u64()).map(|x| x as usize);
        let fam_s = v.get("fam")?.as_str()?;
        let fam = fams.iter().find(|f| **f == fam_s).copied()?;
        let mut aux = [0i64; 4];
        if let Some(a) = v.get("aux").and_then(|a| a.as_array()) {
            for (i, x) in a.iter().take(4).enumerate() {
                aux[i] = x.as_i64().unwrap_or(0);
            }
        }
        Some(Job {
            fam,
            class: g("class")?,
            mode: g("mode"),
            level: g("level"),
            version: g("version"),
            mask: g("mask"),
            len: g("len")?,
            gen: g("gen")?,
            seed: v.get("seed")?.as_str()?.parse().ok()?,
            aux,
            payload: match v.get("payload_hex") {
                Some(Value::String(s)) => Some(unhex(s)?),
                _ => None,
            },
        })
    }
    /// key for "distinct" counting
    pub fn key(&self, payload: &[u8]) -> u64 {
        let mut h = oracle::rng::fnv(payload);
        for x in [
            self.mode.map_or(9, |x| x),
            self.level.map_or(9, |x| x),
            self.version.map_or(0, |x| x),
            self.mask.map_or(9, |x| x),
            payload.len(),
        ] {
            h = oracle::rng::mix(h, x as u64);
        }
        h
    }
}
