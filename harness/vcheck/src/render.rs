//! Renderer-side model: a serialisable description of SvgBuilder / ImageBuilder options
//! (`Spec`), how to apply it through the public API, and random generators for it.

use fast_qr::convert::image::ImageBuilder;
use fast_qr::convert::svg::SvgBuilder;
use fast_qr::convert::{Builder, ImageBackgroundShape, Shape};
use oracle::rng::Rng;
use serde_json::{json, Value};

pub const SHAPES: [Shape; 6] = [Shape::Square, Shape::Circle, Shape::RoundedSquare, Shape::Vertical, Shape::Horizontal, Shape::Diamond];
pub const SHAPE_NAMES: [&str; 6] = ["Square", "Circle", "RoundedSquare", "Vertical", "Horizontal", "Diamond"];
pub const IBG: [ImageBackgroundShape; 3] = [ImageBackgroundShape::Square, ImageBackgroundShape::Circle, ImageBackgroundShape::RoundedSquare];
pub const IBG_NAMES: [&str; 3] = ["Square", "Circle", "RoundedSquare"];

#[derive(Clone, Debug, PartialEq)]
pub enum Colour {
    Rgb([u8; 3]),
    Rgba([u8; 4]),
    Text(String),
}

impl Colour {
    /// what must appear in the document (compare case-insensitively for arrays)
    pub fn expected(&self) -> String {
        match self {
            Colour::Rgb(c) => format!("#{:02x}{:02x}{:02x}", c[0], c[1], c[2]),
            Colour::Rgba(c) if c[3] == 255 => format!("#{:02x}{:02x}{:02x}", c[0], c[1], c[2]),
            Colour::Rgba(c) => format!("#{:02x}{:02x}{:02x}{:02x}", c[0], c[1], c[2], c[3]),
            Colour::Text(s) => s.clone(),
        }
    }
    pub fn matches(&self, got: &str) -> bool {
        match self {
            Colour::Text(s) => got == s,
            _ => got.eq_ignore_ascii_case(&self.expected()),
        }
    }
    /// RGBA value if known (arrays, #hex strings, a few names)
    pub fn rgba(&self) -> Option<[u8; 4]> {
        match self {
            Colour::Rgb(c) => Some([c[0], c[1], c[2], 255]),
            Colour::Rgba(c) => Some(*c),
            Colour::Text(s) => text_colour_rgba(s),
        }
    }
    pub fn to_json(&self) -> Value {
        match self {
            Colour::Rgb(c) => json!({"rgb": c}),
            Colour::Rgba(c) => json!({"rgba": c}),
            Colour::Text(s) => json!({"text": s}),
        }
    }
    pub fn from_json(v: &Value) -> Option<Colour> {
        let arr = |a: &Value| -> Option<Vec<u8>> { a.as_array()?.iter().map(|x| x.as_u64().map(|x| x as u8)).collect() };
        if let Some(a) = v.get("rgb") {
            let a = arr(a)?;
            return Some(Colour::Rgb([a[0], a[1], a[2]]));
        }
        if let Some(a) = v.get("rgba") {
            let a = arr(a)?;
            return Some(Colour::Rgba([a[0], a[1], a[2], a[3]]));
        }
        Some(Colour::Text(v.get("text")?.as_str()?.to_string()))
    }
}

#[derive(Clone, Debug, PartialEq)]
pub struct Spec {
    pub margin: Option<usize>,
    pub module_color: Option<Colour>,
    pub background: Option<Colour>,
    /// shape()/shape_color() calls in order
    pub layers: Vec<(usize, Option<Colour>)>,
    pub image: Option<String>,
    pub image_bg_shape: Option<usize>,
    pub image_bg_color: Option<Colour>,
    pub image_size: Option<f64>,
    pub image_gap: Option<f64>,
    pub image_position: Option<(f64, f64)>,
    pub fit_width: Option<u32>,
    pub fit_height: Option<u32>,
}

impl Default for Spec {
    fn default() -> Self {
        Spec {
            margin: None,
            module_color: None,
            background: None,
            layers: vec![],
            image: None,
            image_bg_shape: None,
            image_bg_color: None,
            image_size: None,
            image_gap: None,
            image_position: None,
            fit_width: None,
            fit_height: None,
        }
    }
}

fn apply<B: Builder>(b: &mut B, s: &Spec) {
    fn col<B: Builder>(b: &mut B, c: &Colour, which: u8, shape: usize) {
        macro_rules! set {
            ($v:expr) => {
                match which {
                    0 => {
                        b.module_color($v);
                    }
                    1 => {
                        b.background_color($v);
                    }
                    2 => {
                        b.image_background_color($v);
                    }
                    _ => {
                        b.shape_color(SHAPES[shape], $v);
                    }
                }
            };
        }
        // every `Into<Color>` route the crate offers is used: arrays, `&[u8]` slices, `Vec<u8>`,
        // `&str` and `String`; which one is a deterministic function of the colour value, so a
        // replay takes the same route
        let route = match c {
            Colour::Rgb(x) => x.iter().map(|&b| b as usize).sum::<usize>(),
            Colour::Rgba(x) => x.iter().map(|&b| b as usize).sum::<usize>(),
            Colour::Text(x) => x.len(),
        };
        match c {
            Colour::Rgb(x) => match route % 3 {
                0 => set!(*x),
                1 => set!(&x[..]),
                _ => set!(x.to_vec()),
            },
            Colour::Rgba(x) => match route % 3 {
                0 => set!(*x),
                1 => set!(&x[..]),
                _ => set!(x.to_vec()),
            },
            Colour::Text(x) => match route % 2 {
                0 => set!(x.as_str()),
                _ => set!(x.clone()),
            },
        }
    }
    if let Some(m) = s.margin {
        b.margin(m);
    }
    if let Some(c) = &s.module_color {
        col(b, c, 0, 0);
    }
    if let Some(c) = &s.background {
        col(b, c, 1, 0);
    }
    for (shape, c) in &s.layers {
        match c {
            None => {
                b.shape(SHAPES[*shape]);
            }
            Some(c) => col(b, c, 3, *shape),
        }
    }
    if let Some(i) = &s.image {
        b.image(i.clone());
    }
    if let Some(i) = s.image_bg_shape {
        b.image_background_shape(IBG[i]);
    }
    if let Some(c) = &s.image_bg_color {
        col(b, c, 2, 0);
    }
    if let Some(x) = s.image_size {
        b.image_size(x);
    }
    if let Some(x) = s.image_gap {
        b.image_gap(x);
    }
    if let Some((x, y)) = s.image_position {
        b.image_position(x, y);
    }
}

impl Spec {
    pub fn margin_value(&self) -> usize {
        self.margin.unwrap_or(4)
    }
    pub fn module_colour(&self) -> Colour {
        self.module_color.clone().unwrap_or(Colour::Rgba([0, 0, 0, 255]))
    }
    pub fn background_colour(&self) -> Colour {
        self.background.clone().unwrap_or(Colour::Rgba([255, 255, 255, 255]))
    }
    /// Builder configured through a call HISTORY that ends in these option values: the setters are called in
    /// a shuffled order, some of them first with other values (the last value wins), image() possibly again
    /// after the size/gap/position setters. The history is a deterministic function of the spec (so a replay
    /// makes the same calls). A configuration is its final values; how they were reached must not matter.
    /// The builder with this spec's final option values, reached through a noisy setter history. A third of the
    /// builders have also been USED before they are handed out: they rendered a blank hand-made symbol of an unrelated
    /// side with the final options (result discarded), or, half as often, in the middle of the setter history. A
    /// rendering is a function of the symbol it is given and the option values, not of what the builder drew before.
    pub fn svg_builder(&self) -> SvgBuilder {
        self.svg_builder_for(None)
    }
    pub fn image_builder(&self) -> ImageBuilder {
        self.image_builder_for(None)
    }
    /// `target` = the symbol the caller is going to render: half of the earlier uses of a used builder then draw THAT
    /// symbol (in the middle of the setter history, i.e. with other option values than the final ones) instead of a
    /// blank one, so the measured rendering is a second rendering of the same matrix by the same builder after its
    /// options changed.
    pub fn svg_builder_for(&self, target: Option<&fast_qr::QRCode>) -> SvgBuilder {
        let mut rng = Rng::new(oracle::rng::fnv(self.describe().as_bytes()) ^ 0x0bde);
        let mut b = SvgBuilder::default();
        let hist = self.noisy_history(&mut rng);
        let used = rng.below(6);
        let side = 17 + 4 * [1usize, 2, 7, 20, 40, 1 + rng.below(40)][rng.below(6)];
        let blank = fast_qr::QRCode::default(side);
        let same = target.is_some() && rng.chance(1, 2);
        for (i, op) in hist.iter().enumerate() {
            if (used == 2 || (same && used == 3)) && i == hist.len() / 2 {
                let q = if same { target.unwrap() } else { &blank };
                let _ = std::panic::catch_unwind(std::panic::AssertUnwindSafe(|| b.to_str(q)));
            }
            apply_op(&mut b, op);
        }
        if used < 2 {
            let _ = std::panic::catch_unwind(std::panic::AssertUnwindSafe(|| b.to_str(&blank)));
        }
        b
    }
    pub fn image_builder_for(&self, target: Option<&fast_qr::QRCode>) -> ImageBuilder {
        let mut rng = Rng::new(oracle::rng::fnv(self.describe().as_bytes()) ^ 0x0bde);
        // one builder in ten is handed out right after a rendering that FAILED on this thread and was survived, the
        // way an application survives it (a colour string still wrapped in its JSON quotes makes the intermediate
        // document unparsable; a drawing callback that panics): what the unwinding left behind - a lock, a half-filled
        // buffer - may not reach the renderings that follow, on any thread
        if rng.chance(1, 10) {
            fn failing_shape(_y: usize, _x: usize, _m: fast_qr::Module) -> String {
                panic!("drawing callback failed")
            }
            let blank = fast_qr::QRCode::default(21);
            let _ = std::panic::catch_unwind(std::panic::AssertUnwindSafe(|| {
                let mut pb = ImageBuilder::default();
                if rng.chance(1, 2) {
                    pb.module_color("\"#ffffff\"");
                    pb.background_color("<");
                } else {
                    pb.shape(Shape::Command(failing_shape));
                }
                let mut dark = blank.clone();
                dark.data[0].set(true);
                pb.to_pixmap(&dark).width()
            }));
        }
        let mut b = ImageBuilder::default();
        let hist = self.noisy_history(&mut rng);
        let used = rng.below(6);
        let side = 17 + 4 * [1usize, 2, 3, 5, 7, 1 + rng.below(8)][rng.below(6)];
        let blank = fast_qr::QRCode::default(side);
        // (only symbols that are cheap to rasterise twice)
        let same = target.map_or(false, |q| q.size <= 65) && rng.chance(1, 2);
        for (i, op) in hist.iter().enumerate() {
            if (used == 2 || (same && used == 3)) && i == hist.len() / 2 {
                let q = if same { target.unwrap() } else { &blank };
                let _ = std::panic::catch_unwind(std::panic::AssertUnwindSafe(|| b.to_pixmap(q)));
            }
            apply_image_op(&mut b, op);
        }
        if used < 2 {
            let _ = std::panic::catch_unwind(std::panic::AssertUnwindSafe(|| b.to_pixmap(&blank)));
        }
        b
    }
    /// Builder configured by one call per option in a fixed order (the reference of the history monitors).
    pub fn svg_builder_canonical(&self) -> SvgBuilder {
        let mut b = SvgBuilder::default();
        apply(&mut b, self);
        b
    }
    pub fn image_builder_canonical(&self) -> ImageBuilder {
        let mut b = ImageBuilder::default();
        apply(&mut b, self);
        if let Some(w) = self.fit_width {
            b.fit_width(w);
        }
        if let Some(h) = self.fit_height {
            b.fit_height(h);
        }
        b
    }
    pub fn to_json(&self) -> Value {
        json!({
            "margin": self.margin,
            "module_color": self.module_color.as_ref().map(|c| c.to_json()),
            "background": self.background.as_ref().map(|c| c.to_json()),
            "layers": self.layers.iter().map(|(s, c)| json!({"shape": s, "color": c.as_ref().map(|c| c.to_json())})).collect::<Vec<_>>(),
            "image": self.image,
            "image_bg_shape": self.image_bg_shape,
            "image_bg_color": self.image_bg_color.as_ref().map(|c| c.to_json()),
            "image_size": self.image_size, "image_gap": self.image_gap,
            "image_position": self.image_position.map(|(x, y)| vec![x, y]),
            "fit_width": self.fit_width, "fit_height": self.fit_height,
        })
    }
    pub fn from_json(v: &Value) -> Option<Spec> {
        let u = |k: &str| v.get(k).and_then(|x| x.as_u64());
        let f = |k: &str| v.get(k).and_then(|x| x.as_f64());
        let c = |k: &str| v.get(k).filter(|x| !x.is_null()).and_then(Colour::from_json);
        let mut layers = vec![];
        for l in v.get("layers")?.as_array()? {
            layers.push((l.get("shape")?.as_u64()? as usize, l.get("color").filter(|x| !x.is_null()).and_then(Colour::from_json)));
        }
        Some(Spec {
            margin: u("margin").map(|x| x as usize),
            module_color: c("module_color"),
            background: c("background"),
            layers,
            image: v.get("image").and_then(|x| x.as_str()).map(|s| s.to_string()),
            image_bg_shape: u("image_bg_shape").map(|x| x as usize),
            image_bg_color: c("image_bg_color"),
            image_size: f("image_size"),
            image_gap: f("image_gap"),
            image_position: v.get("image_position").and_then(|x| x.as_array()).and_then(|a| Some((a.first()?.as_f64()?, a.get(1)?.as_f64()?))),
            fit_width: u("fit_width").map(|x| x as u32),
            fit_height: u("fit_height").map(|x| x as u32),
        })
    }
    pub fn describe(&self) -> String {
        self.to_json().to_string()
    }
}

/// Colour keywords of SVG 1.1 that the workloads use, with their values. (`rebeccapurple` is CSS4: the rasteriser
/// linked here paints it black, so it is generated as a string without a pinned pixel value.)
pub const NAMED_COLOURS: [(&str, [u8; 3]); 19] = [
    ("red", [255, 0, 0]), ("navy", [0, 0, 128]), ("black", [0, 0, 0]), ("white", [255, 255, 255]), ("lime", [0, 255, 0]), ("green", [0, 128, 0]),
    ("blue", [0, 0, 255]), ("orange", [255, 165, 0]), ("teal", [0, 128, 128]), ("silver", [192, 192, 192]), ("gray", [128, 128, 128]), ("grey", [128, 128, 128]), ("maroon", [128, 0, 0]),
    ("fuchsia", [255, 0, 255]), ("aqua", [0, 255, 255]), ("yellow", [255, 255, 0]), ("olive", [128, 128, 0]), ("purple", [128, 0, 128]), ("cornflowerblue", [100, 149, 237]),
];

/// The RGBA value of a colour given as text, for the notations the workloads generate: `#rrggbb`, `#rrggbbaa`, the
/// shorthands `#rgb` / `#rgba` (every digit doubled), keyword names, `rgb(r,g,b)`.
pub fn text_colour_rgba(s: &str) -> Option<[u8; 4]> {
    if let Some(h) = s.strip_prefix('#') {
        if !h.bytes().all(|b| b.is_ascii_hexdigit()) {
            return None;
        }
        let p = |i: usize| u8::from_str_radix(h.get(2 * i..2 * i + 2)?, 16).ok();
        let d = |i: usize| u8::from_str_radix(h.get(i..i + 1)?, 16).ok().map(|x| x * 17);
        return match h.len() {
            6 => Some([p(0)?, p(1)?, p(2)?, 255]),
            8 => Some([p(0)?, p(1)?, p(2)?, p(3)?]),
            3 => Some([d(0)?, d(1)?, d(2)?, 255]),
            4 => Some([d(0)?, d(1)?, d(2)?, d(3)?]),
            _ => None,
        };
    }
    if let Some((_, c)) = NAMED_COLOURS.iter().find(|(n, _)| n.eq_ignore_ascii_case(s)) {
        return Some([c[0], c[1], c[2], 255]);
    }
    let inner = s.strip_prefix("rgb(")?.strip_suffix(')')?;
    let parts: Vec<&str> = inner.split(',').map(|x| x.trim()).collect();
    if parts.len() != 3 {
        return None;
    }
    let v: Option<Vec<u8>> = parts.iter().map(|x| x.parse::<u8>().ok()).collect();
    let v = v?;
    Some([v[0], v[1], v[2], 255])
}

pub fn random_colour(rng: &mut Rng, allow_alpha: bool) -> Colour {
    match rng.below(6) {
        0 => Colour::Rgb([rng.byte(), rng.byte(), rng.byte()]),
        1 => Colour::Rgba([rng.byte(), rng.byte(), rng.byte(), if allow_alpha { *rng.pick(&[0u8, 1, 127, 254, 255]) } else { 255 }]),
        2 => Colour::Rgba([rng.byte(), rng.byte(), rng.byte(), 255]),
        3 => Colour::Text(format!("#{:02x}{:02x}{:02x}", rng.byte(), rng.byte(), rng.byte())),
        4 => Colour::Text(format!("#{:02X}{:02X}{:02X}", rng.byte(), rng.byte(), rng.byte())),
        _ => random_text_notation(rng, allow_alpha),
    }
}

/// a colour written the way people write colours in CSS/SVG when it is not six hex digits
pub fn random_text_notation(rng: &mut Rng, allow_alpha: bool) -> Colour {
    match rng.below(4) {
    // the notations CSS/SVG offer besides six hex digits: three-digit shorthand (digits NOT all equal most of
    // the time), four-digit shorthand with alpha, keyword names, functional notation
    0 => {
        let hexd = b"0123456789abcdefABCDEF";
        let mut t = String::from("#");
        for _ in 0..3 {
            t.push(*rng.pick(hexd) as char);
        }
        if rng.chance(1, 3) {
            t.push(if allow_alpha { *rng.pick(b"0137f") as char } else { *rng.pick(b"fF") as char });
        }
        Colour::Text(t)
    }
    1 => Colour::Text(format!("#{:02x}{:02x}{:02x}{:02x}", rng.byte(), rng.byte(), rng.byte(), if allow_alpha { *rng.pick(&[0u8, 1, 127, 254, 255]) } else { 255 })),
    2 => Colour::Text(if rng.chance(1, 10) { "rebeccapurple".to_string() } else { NAMED_COLOURS[rng.below(NAMED_COLOURS.len())].0.to_string() }),
    _ => Colour::Text(if rng.chance(1, 2) { "rgb(1,2,3)".to_string() } else { format!("rgb({}, {}, {})", rng.byte(), rng.byte(), rng.byte()) }),
    }
}

/// Image strings drawn from characters legal in XML 1.0, excluding TAB/LF/CR (attribute-value
/// normalisation would make "equals" ill-defined).
pub fn random_image_string(rng: &mut Rng) -> String {
    // references whose FIRST bytes mean something to somebody: bare base64 of the common image headers (PNG, JPEG,
    // GIF, WebP, "<svg", "<?xml") and paths that merely begin like them, scheme-less and fragment-only references,
    // other URI schemes - an image reference is written out as it was given, whatever it looks like
    const MAGIC: [&str; 20] = [
        "iVBORw0KGgoAAAANSUhEUgAAAAEAAAABCAYAAAAfFcSJAAAADUlEQVR4nGNgYGBgAAAABQABh6FO1AAAAABJRU5ErkJggg==",
        "iVBORw0KGgo/icons/logo.png",
        "/9j/4AAQSkZJRgABAQ",
        "/9j/brand/logo.jpg",
        "R0lGODlhAQABAAAAACw=",
        "R0lGODs/spinner.gif",
        "UklGRiQAAABXRUJQVlA4",
        "PHN2ZyB4bWxucz0iaHR0cDovL3d3dy53My5vcmcvMjAwMC9zdmciLz4=",
        "PD94bWwgdmVyc2lvbj0iMS4wIj8+",
        "//cdn.example.com/x.png",
        "#logo",
        "?v=2",
        "blob:https://example.com/9115d58c-bcda-ff47-86e5-083e9a215304",
        "file:///C:/logo.png",
        "javascript:void(0)",
        "data:,",
        "data:image/svg+xml;utf8,<svg xmlns='http://www.w3.org/2000/svg'/>",
        "<svg xmlns='http://www.w3.org/2000/svg'/>",
        "%PDF-1.7",
        "-",
    ];
    if rng.chance(1, 5) {
        return rng.pick(&MAGIC).to_string();
    }
    const FIXED: [&str; 12] = [
        "https://example.com/logo.png",
        "https://e.com/?a=1&b=2",
        "data:image/png;base64,iVBORw0KGgoAAAANSUhEUgAAABAAAAAQCAIAAACQkWg2AAAAFUlEQVR4AWP4oyVDEhrGGkY1jGoAABACQhA+7XDPAAAAAElFTkSuQmCC",
        "./assets/my logo (1).svg",
        "a&b<c>d\"e'f",
        "\"",
        "<",
        "&amp;",
        "&#x41;&lt;",
        "]]>",
        "C:\\dir\\file.png",
        "\u{e9}\u{4e2d}\u{1F680}.png",
    ];
    // strings that look like the placeholders of a template / format layer (the crate fills templates by
    // textual replacement): a user string must come out verbatim even if it spells one
    const NAMES: [&str; 26] = ["", "0", "1", "2", "3", "4", "size", "width", "height", "margin", "background", "color", "fill", "image", "href", "path", "d", "x", "y", "modules", "data", "content", "viewbox", "shape", "gap", "n"];
    if rng.chance(1, 4) {
        let name = *rng.pick(&NAMES);
        let tok = match rng.below(7) {
            0 | 1 | 2 => format!("{{{name}}}"),
            3 => format!("{{{{{name}}}}}"),
            4 => format!("${{{name}}}"),
            5 => format!("%{name}%"),
            _ => format!("{{{name}:.2}}"),
        };
        return match rng.below(3) {
            0 => tok,
            1 => format!("https://cdn.example.com/logos/acme_{tok}.png"),
            _ => format!("{tok}{tok}/a b/{tok}"),
        };
    }
    if rng.chance(2, 3) {
        return rng.pick(&FIXED).to_string();
    }
    let n = 1 + rng.below(40);
    let mut s = String::new();
    for _ in 0..n {
        let c = match rng.below(8) {
            0 => *rng.pick(&['&', '<', '>', '"', '\'']),
            1 => char::from_u32(0xA0 + rng.below(0x2000) as u32).unwrap_or('x'),
            2 => ' ',
            _ => (0x21 + rng.below(0x5e) as u8) as char,
        };
        s.push(c);
    }
    s
}

/// Image strings for monitors that compare two documents byte for byte (so attribute-value normalisation is no
/// concern): everything `random_image_string` yields, plus what real image references look like when they come out
/// of a file or a MIME encoder - base64 data URIs wrapped at 76 / 64 characters with CRLF or LF, a trailing newline,
/// TABs, leading and trailing blanks, an inline SVG document.
pub fn random_image_string_raw(rng: &mut Rng) -> String {
    if !rng.chance(1, 3) {
        return random_image_string(rng);
    }
    const B64: &[u8] = b"ABCDEFGHIJKLMNOPQRSTUVWXYZabcdefghijklmnopqrstuvwxyz0123456789+/";
    let body = |rng: &mut Rng, n: usize| -> String { (0..n).map(|_| *rng.pick(B64) as char).collect() };
    match rng.below(7) {
        0 | 1 | 2 => {
            let width = *rng.pick(&[76usize, 64, 60, 1]);
            let eol = *rng.pick(&["\r\n", "\n", "\r", "\n "]);
            let n = 40 + rng.below(400);
            let raw = body(rng, n);
            let mut s = String::from(*rng.pick(&["data:image/png;base64,", "data:image/jpeg;base64,", "data:;base64,", "DATA:image/png;BASE64,"]));
            for (i, ch) in raw.chars().enumerate() {
                if i > 0 && i % width == 0 {
                    s.push_str(eol);
                }
                s.push(ch);
            }
            if rng.chance(1, 2) {
                s.push_str(eol);
            }
            s
        }
        3 => format!("{}\n", random_image_string(rng)),
        4 => format!(" \t{} ", random_image_string(rng)),
        5 => "data:image/svg+xml;utf8,<svg xmlns='http://www.w3.org/2000/svg'\n     viewBox='0 0 1 1'>\n\t<rect width='1' height='1'/>\n</svg>\n".to_string(),
        _ => format!("https://example.com/a\tb\r\nc/{}.png", rng.below(100)),
    }
}

/// random SVG-side spec (no raster options)
pub fn random_svg_spec(rng: &mut Rng, size: usize, with_image: bool) -> Spec {
    let mut s = Spec::default();
    s.margin = match rng.below(7) {
        0 => None,
        1 => Some(0),
        2 => Some(1),
        3 => Some(4),
        4 => Some(7),
        5 => Some(size),
        _ => Some(rng.below(12)),
    };
    if rng.chance(2, 3) {
        s.module_color = Some(random_colour(rng, true));
    }
    if rng.chance(2, 3) {
        s.background = Some(random_colour(rng, true));
    }
    for _ in 0..rng.below(6) {
        let shape = rng.below(6);
        let mut c = if rng.chance(1, 2) { Some(random_colour(rng, true)) } else { None };
        // coincidences between options: a layer explicitly coloured with the (current or default) module colour,
        // with the background colour, or with the colour of an earlier layer
        if c.is_some() && rng.chance(1, 4) {
            c = Some(match rng.below(7) {
                0 => s.module_color.clone().unwrap_or(Colour::Rgb([0, 0, 0])),
                1 => Colour::Rgb([0, 0, 0]),
                2 => Colour::Rgba([0, 0, 0, 255]),
                3 => Colour::Text("#000000".into()),
                4 => s.background.clone().unwrap_or(Colour::Rgba([255, 255, 255, 255])),
                5 => Colour::Text("#ffffff".into()),
                _ => s.layers.iter().rev().find_map(|(_, c)| c.clone()).unwrap_or(Colour::Rgb([0, 0, 0])),
            });
        }
        s.layers.push((shape, c));
    }
    if with_image && rng.chance(1, 2) {
        s.image = Some(random_image_string(rng));
        if rng.chance(1, 2) {
            s.image_bg_shape = Some(rng.below(3));
        }
        if rng.chance(1, 2) {
            s.image_bg_color = Some(random_colour(rng, false));
        }
    }
    s
}

/// One setter call (for call-history workloads).
#[derive(Clone, Debug, PartialEq)]
pub enum ROp {
    Margin(usize),
    ModuleColor(Colour),
    Background(Colour),
    Layer(usize, Option<Colour>),
    Image(String),
    IbgShape(usize),
    IbgColor(Colour),
    ImageSize(f64),
    ImageGap(f64),
    ImagePos(f64, f64),
    FitW(u32),
    FitH(u32),
}

impl ROp {
    pub fn kind(&self) -> usize {
        match self {
            ROp::Margin(_) => 0,
            ROp::ModuleColor(_) => 1,
            ROp::Background(_) => 2,
            ROp::Layer(..) => 3,
            ROp::Image(_) => 4,
            ROp::IbgShape(_) => 5,
            ROp::IbgColor(_) => 6,
            ROp::ImageSize(_) => 7,
            ROp::ImageGap(_) => 8,
            ROp::ImagePos(..) => 9,
            ROp::FitW(_) => 10,
            ROp::FitH(_) => 11,
        }
    }
}

pub fn apply_op<B: Builder>(b: &mut B, op: &ROp) {
    let mut s = Spec::default();
    match op {
        ROp::Margin(m) => s.margin = Some(*m),
        ROp::ModuleColor(c) => s.module_color = Some(c.clone()),
        ROp::Background(c) => s.background = Some(c.clone()),
        ROp::Layer(k, c) => s.layers.push((*k, c.clone())),
        ROp::Image(i) => s.image = Some(i.clone()),
        ROp::IbgShape(k) => s.image_bg_shape = Some(*k),
        ROp::IbgColor(c) => s.image_bg_color = Some(c.clone()),
        ROp::ImageSize(x) => s.image_size = Some(*x),
        ROp::ImageGap(x) => s.image_gap = Some(*x),
        ROp::ImagePos(x, y) => s.image_position = Some((*x, *y)),
        ROp::FitW(_) | ROp::FitH(_) => {}
    }
    apply(b, &s);
}

pub fn apply_image_op(b: &mut ImageBuilder, op: &ROp) {
    match op {
        ROp::FitW(w) => {
            b.fit_width(*w);
        }
        ROp::FitH(h) => {
            b.fit_height(*h);
        }
        other => apply_op(b, other),
    }
}

impl Spec {
    /// canonical setter calls that produce this spec on a default builder
    pub fn ops(&self) -> Vec<ROp> {
        let mut v = Vec::new();
        if let Some(m) = self.margin {
            v.push(ROp::Margin(m));
        }
        if let Some(c) = &self.module_color {
            v.push(ROp::ModuleColor(c.clone()));
        }
        if let Some(c) = &self.background {
            v.push(ROp::Background(c.clone()));
        }
        for (k, c) in &self.layers {
            v.push(ROp::Layer(*k, c.clone()));
        }
        if let Some(i) = &self.image {
            v.push(ROp::Image(i.clone()));
        }
        if let Some(k) = self.image_bg_shape {
            v.push(ROp::IbgShape(k));
        }
        if let Some(c) = &self.image_bg_color {
            v.push(ROp::IbgColor(c.clone()));
        }
        if let Some(x) = self.image_size {
            v.push(ROp::ImageSize(x));
        }
        if let Some(x) = self.image_gap {
            v.push(ROp::ImageGap(x));
        }
        if let Some((x, y)) = self.image_position {
            v.push(ROp::ImagePos(x, y));
        }
        if let Some(w) = self.fit_width {
            v.push(ROp::FitW(w));
        }
        if let Some(h) = self.fit_height {
            v.push(ROp::FitH(h));
        }
        v
    }

    /// A noisy call history with the same final option values: scalar setters in random order,
    /// each possibly preceded by decoy calls of the same setter with other values; shape calls
    /// keep their relative order (they accumulate).
    pub fn noisy_history(&self, rng: &mut Rng) -> Vec<ROp> {
        let canon = self.ops();
        let layers: Vec<ROp> = canon.iter().filter(|o| o.kind() == 3).cloned().collect();
        let mut scalars: Vec<ROp> = canon.iter().filter(|o| o.kind() != 3).cloned().collect();
        rng.shuffle(&mut scalars);
        let mut hist: Vec<ROp> = Vec::new();
        for op in scalars {
            let decoys = rng.below(3);
            for _ in 0..decoys {
                let d = match &op {
                    ROp::Margin(_) => ROp::Margin(rng.below(20)),
                    // a decoy module colour is often a colour some layer is going to get explicitly
                    ROp::ModuleColor(_) => ROp::ModuleColor(match layers.iter().filter_map(|l| if let ROp::Layer(_, Some(c)) = l { Some(c.clone()) } else { None }).nth(rng.below(3)) {
                        Some(c) if rng.chance(1, 2) => c,
                        _ => random_colour(rng, true),
                    }),
                    ROp::Background(_) => ROp::Background(random_colour(rng, true)),
                    ROp::Image(_) => ROp::Image(random_image_string(rng)),
                    ROp::IbgShape(_) => ROp::IbgShape(rng.below(3)),
                    ROp::IbgColor(_) => ROp::IbgColor(random_colour(rng, false)),
                    ROp::ImageSize(_) => ROp::ImageSize(rng.f64() * 10.0),
                    ROp::ImageGap(_) => ROp::ImageGap(rng.f64() * 3.0),
                    ROp::ImagePos(..) => ROp::ImagePos(rng.f64() * 30.0, rng.f64() * 30.0),
                    ROp::FitW(_) => ROp::FitW(50 + rng.below(300) as u32),
                    ROp::FitH(_) => ROp::FitH(50 + rng.below(300) as u32),
                    ROp::Layer(..) => unreachable!(),
                };
                let at = rng.below(hist.len() + 1);
                hist.insert(at, d);
            }
            hist.push(op);
        }
        // weave the layers in, keeping their order
        let mut pos: Vec<usize> = (0..layers.len()).map(|_| rng.below(hist.len() + 1)).collect();
        pos.sort();
        for (i, (l, p)) in layers.into_iter().zip(pos).enumerate() {
            hist.insert(p + i, l);
        }
        hist
    }
}
