//! Release-profile stage: the same monitors and workload generators, linked against fast_qr
//! compiled WITHOUT overflow checks and debug assertions and at opt-level 3 (cargo profile
//! `verifrel`, binary built by `./check` next to the main one), are run as a child process at
//! the quick tier with a different seed. The main workload observes the crate with every
//! assertion armed; this stage observes what users actually ship, so behaviour that differs
//! between the two builds (work done inside `debug_assert!`, `cfg(debug_assertions)` code,
//! arithmetic that wraps silently instead of panicking) is seen by the same oracles.
//!
//! The child writes its evidence into a scratch directory (read back and summarised here) and
//! its replay files into the normal replay directory, marked `"profile": "release"`.
//! Tool failures (binary missing, child crashed, no summary) are INCONCLUSIVE.

use crate::fw::{Ctx, Report, Tier};
use serde_json::{json, Value};
use std::path::PathBuf;
use std::process::{Command, Stdio};
use std::time::Instant;

pub fn is_child() -> bool {
    std::env::var_os("VCHECK_STAGE_CHILD").is_some()
}

/// Variables that programs and libraries commonly consult (terminal capabilities and colours, locale, time zone,
/// directories, verbosity switches, reproducible-build and CI markers, thread-pool sizes), each with values a user can
/// really have. Nothing a QR encoder or its renderers produce may depend on any of them.
const ENV_PROFILES: [&[(&str, &str)]; 4] = [
    &[
        ("COLORFGBG", "0;15"), ("TERM", "xterm-256color"), ("COLORTERM", "truecolor"), ("NO_COLOR", "1"), ("CLICOLOR", "0"), ("CLICOLOR_FORCE", "1"), ("FORCE_COLOR", "3"),
        ("TERM_PROGRAM", "Apple_Terminal"), ("COLUMNS", "40"), ("LINES", "10"), ("LANG", "tr_TR.UTF-8"), ("LC_ALL", "tr_TR.UTF-8"), ("LC_NUMERIC", "de_DE.UTF-8"), ("LC_CTYPE", "C"),
        ("TZ", "Pacific/Kiritimati"), ("SOURCE_DATE_EPOCH", "0"), ("CI", "true"), ("DEBUG", "1"), ("VERBOSE", "1"), ("QUIET", "1"), ("RUST_LOG", "trace"), ("RUST_BACKTRACE", "full"),
        ("RAYON_NUM_THREADS", "1"), ("OMP_NUM_THREADS", "1"), ("HOME", "/nonexistent"), ("USER", "nobody"), ("SHELL", "/bin/false"), ("DISPLAY", ":99"), ("WAYLAND_DISPLAY", "wayland-9"),
        ("XDG_CONFIG_HOME", "/nonexistent/config"), ("XDG_CACHE_HOME", "/nonexistent/cache"), ("FAST_QR_DEBUG", "1"), ("QR_DEBUG", "1"), ("QR_THEME", "light"), ("THEME", "light"), ("DARK_MODE", "0"),
    ],
    &[
        ("COLORFGBG", "15;0"), ("TERM", "dumb"), ("NO_COLOR", ""), ("CLICOLOR_FORCE", "0"), ("COLUMNS", "0"), ("LINES", "0"), ("LANG", "C"), ("LC_ALL", "POSIX"), ("TZ", "UTC"),
        ("SOURCE_DATE_EPOCH", "4102444800"), ("CI", ""), ("RUST_LOG", "off"), ("RUST_BACKTRACE", "0"), ("HOME", ""), ("TMPDIR", "/nonexistent/tmp"), ("TEMP", "/nonexistent/tmp"), ("TMP", "/nonexistent/tmp"),
        ("QR_THEME", "dark"), ("THEME", "dark"), ("DARK_MODE", "1"), ("FAST_QR_CACHE", "0"), ("FAST_QR_THREADS", "1"),
    ],
    &[
        ("COLORFGBG", "0;default;15"), ("TERM", "linux"), ("COLORTERM", "24bit"), ("LANG", "ja_JP.UTF-8"), ("LC_ALL", "ja_JP.eucJP"), ("LC_NUMERIC", "fr_FR.UTF-8"), ("TZ", "America/St_Johns"),
        ("COLUMNS", "100000"), ("LINES", "100000"), ("FORCE_COLOR", "0"), ("TERM_PROGRAM", "vscode"), ("INSIDE_EMACS", "29.1,comint"), ("RUST_MIN_STACK", "16777216"), ("MALLOC_PERTURB_", "165"),
        ("LD_LIBRARY_PATH", "/nonexistent/lib"), ("PWD", "/nonexistent"), ("OLDPWD", "/"), ("HOSTNAME", "qr-\u{e9}"), ("FAST_QR_CACHE", "1"), ("FAST_QR_LOG", "trace"),
    ],
    &[("COLORFGBG", "7;0"), ("TERM", ""), ("LANG", ""), ("LC_ALL", ""), ("TZ", ":/nonexistent"), ("PATH", ""), ("HOME", "/"), ("NO_COLOR", "0"), ("CLICOLOR", "1")],
];

/// Give `cmd` a hostile but legitimate process environment: cleared and refilled from profile `which` (the harness's
/// own VERIF_* / VCHECK_* variables pass through), every OTHER variable answered as if it were set by the LD_PRELOAD
/// monitor `harness/shim/envspy.c` (which also logs each distinct name consulted into `spy_log`, lets the wall clock
/// jump a day per reading and reports a terminal on descriptors 0-2), and a standard error that cannot be written (a
/// full device; a closed pipe behaves alike for `eprintln!`), and an allocator that returns blocks of alignment 1 at odd
/// addresses and yields the processor at every 61st call (`hostile_alloc.rs`): diagnostics a library prints must not turn into a panic
/// of the call that printed them, and nothing the crate produces may depend on any of this. Returns false when the
/// monitor library is missing (the rest is still applied).
pub fn hostile_environment(cmd: &mut Command, root: &std::path::Path, which: usize, answer: &str, spy_log: &std::path::Path, skew_allocations: bool) -> bool {
    cmd.env_clear();
    for (k, v) in std::env::vars_os() {
        let ks = k.to_string_lossy();
        if ks.starts_with("VERIF_") || ks.starts_with("VCHECK_") {
            cmd.env(k, v);
        }
    }
    for (k, v) in ENV_PROFILES[which % ENV_PROFILES.len()] {
        cmd.env(k, v);
    }
    // the child's allocator hands out minimally aligned blocks and yields now and then (hostile_alloc.rs)
    cmd.env("VCHECK_HOSTILE_ALLOC", if skew_allocations { "2" } else { "1" });
    let spy = root.join("harness/shim/envspy.so");
    let loaded = spy.is_file();
    if loaded {
        cmd.env("LD_PRELOAD", &spy).env("ENVSPY_LOG", spy_log).env("ENVSPY_ANSWER", answer).env("ENVSPY_CLOCK", "1").env("ENVSPY_TTY", "1");
    }
    match std::fs::OpenOptions::new().write(true).open("/dev/full") {
        Ok(f) => {
            cmd.stderr(Stdio::from(f));
        }
        Err(_) => {
            cmd.stderr(Stdio::null());
        }
    }
    loaded
}

/// A working directory in which files named like the relative image references of the workloads really exist
pub fn decoy_working_directory(cwd: &std::path::Path) {
    for f in ["logo.png", "assets/my logo (1).svg", "assets/example.com.svg", "a", "x", "out.svg", "image.png", "-", "%PDF-1.7", "#logo", "?v=2", "iVBORw0KGgo/icons/logo.png", "R0lGODs/spinner.gif", "C:\\dir\\file.png"] {
        let p = cwd.join(f);
        if let Some(parent) = p.parent() {
            let _ = std::fs::create_dir_all(parent);
        }
        let _ = std::fs::write(&p, b"decoy");
    }
}

pub fn describe_profile(which: usize) -> String {
    ENV_PROFILES[which % ENV_PROFILES.len()].iter().map(|(k, v)| format!("{k}={v}")).collect::<Vec<_>>().join(" ")
}

/// Environment stage: the same verif-profile binary re-runs a third of the quick workload in a child process whose
/// environment is (a) cleared and then (b) filled with one of the profiles above.
fn environment_stage(ctx: &Ctx, prop: &str, rep: &mut Report) {
    let exe = match std::env::current_exe() {
        Ok(e) => e,
        Err(e) => {
            rep.stats.inconclusive(format!("environment stage: current_exe: {e}"));
            return;
        }
    };
    let t0 = Instant::now();
    let which = (ctx.seed as usize).wrapping_add(prop.bytes().map(|b| b as usize).sum::<usize>()) % ENV_PROFILES.len();
    let profile = ENV_PROFILES[which];
    let evdir = std::env::var_os("VCHECK_TARGET_DIR").map(PathBuf::from).unwrap_or_else(|| ctx.root.join("harness/target")).join("scratch").join(format!("envstage-{}-{}", prop, std::process::id()));
    let _ = std::fs::create_dir_all(&evdir);
    // the child also runs in a working directory of its own in which files with the names the workloads use as
    // relative image references really exist: output may not depend on what happens to lie on the disk
    let cwd = evdir.join("cwd");
    decoy_working_directory(&cwd);
    let mut cmd = Command::new(&exe);
    cmd.args(["run", prop, "--tier", "quick"]).current_dir(&cwd);
    let spy_log = evdir.join("envspy.log");
    const ANSWERS: [&str; 5] = ["1", "true", "yes", "trace", "2"];
    let answer = ANSWERS[(ctx.seed as usize / 7 + prop.len() + which) % ANSWERS.len()];
    let spy = ctx.root.join("harness/shim/envspy.so");
    // (no skewed blocks where pixels are rasterised: see hostile_alloc.rs)
    let rasterises = matches!(prop, "C13" | "C14" | "C17" | "C18" | "C19");
    if !hostile_environment(&mut cmd, &ctx.root, which, answer, &spy_log, !rasterises) {
        rep.stats.inconclusive(format!("environment stage: {} is missing (run ./setup.sh)", spy.display()));
    }
    cmd.env("VCHECK_STAGE_CHILD", "environment").env("VERIF_THIN", "3").env("VERIF_SEED", format!("{}", (ctx.seed ^ 0xe57a6e) as i128)).env("VERIF_EVIDENCE_DIR", &evdir).stdin(Stdio::null());
    let out = match cmd.output() {
        Ok(o) => o,
        Err(e) => {
            rep.stats.inconclusive(format!("environment stage: cannot start child: {e}"));
            let _ = std::fs::remove_dir_all(&evdir);
            return;
        }
    };
    let stdout = String::from_utf8_lossy(&out.stdout).to_string();
    // what the process asked the environment for (names only; the harness's own and the runtime's are listed apart)
    let spied = std::fs::read_to_string(&spy_log).unwrap_or_default();
    let own = |n: &str| ["ENVSPY_", "VERIF_", "VCHECK_", "IOFAULT_", "RUST_", "CARGO", "LD_", "MALLOC_", "GLIBC_", "LLVM_"].iter().any(|p| n.starts_with(p));
    let mut consulted_set: Vec<String> = Vec::new();
    let mut answered: Vec<String> = Vec::new();
    let mut harness_names = 0u64;
    for l in spied.lines() {
        let (tag, name) = l.split_once(' ').unwrap_or(("", l));
        if own(name) {
            harness_names += 1;
        } else if tag == "set" {
            consulted_set.push(name.to_string());
        } else {
            answered.push(name.to_string());
        }
    }
    if spy.is_file() && harness_names == 0 {
        rep.stats.inconclusive("environment stage: the getenv monitor logged nothing (not even the harness's own variables): it was not loaded".to_string());
    }
    let mut violations = 0u64;
    for line in stdout.lines() {
        if let Some(rest) = line.strip_prefix("VIOLATION ") {
            let field = |k: &str| rest.split_whitespace().find_map(|w| w.strip_prefix(&format!("{k}="))).unwrap_or("").to_string();
            let kind = field("kind");
            let replay = field("replay");
            let detail = rest.splitn(4, ' ').nth(3).unwrap_or("").to_string();
            let job = std::fs::read_to_string(&replay).ok().and_then(|t| serde_json::from_str::<Value>(&t).ok()).map(|v| v["job"].clone()).unwrap_or(json!({"fam": "environment-stage"}));
            rep.stats.violations.push(crate::stats::Violation {
                property: prop.to_string(),
                kind: format!("hostile-environment:{kind}"),
                detail: format!("{detail} (observed only in a process whose environment was cleared and set to profile {which}: {}; variables the process consulted that were not set and were answered {answer:?} by the getenv monitor: {:?}; consulted and set: {:?})", profile.iter().map(|(k, v)| format!("{k}={v}")).collect::<Vec<_>>().join(" "), answered, consulted_set),
                job: json!({"environment_profile": which, "answered_unset_variables": answered, "answer": answer, "inner": job, "child_replay": replay}),
            });
            rep.stats.count("violations_total", 1);
            violations += 1;
        } else if line.starts_with("INCONCLUSIVE") {
            rep.stats.inconclusive(format!("environment stage: {line}"));
        }
    }
    let ev: Option<Value> = std::fs::read_to_string(evdir.join(format!("{prop}.json"))).ok().and_then(|t| serde_json::from_str(&t).ok());
    let _ = std::fs::remove_dir_all(&evdir);
    let evals = ev.as_ref().and_then(|e| e["coverage"]["evaluations"].as_u64()).unwrap_or(0);
    match out.status.code() {
        Some(0) | Some(1) if ev.is_some() => {}
        Some(2) => {}
        other => rep.stats.inconclusive(format!("environment stage: child ended with status {other:?} and no evidence")),
    }
    rep.stats.count("hostile_environment_executions", evals);
    rep.extra.push((
        "stage_environment".into(),
        json!({
            "what": "same monitors, every third job of the quick workload, in a child process whose working directory contains files named like the relative image references of the workloads and whose standard error is a full device (every write fails), whose environment was cleared and filled with a profile of commonly consulted variables (terminal colours and capabilities, locale, time zone, directories, verbosity, CI / reproducible-build markers, thread-pool sizes)",
            "getenv_monitor": {"what": "LD_PRELOAD hook on getenv/secure_getenv in the same child: every distinct name consulted is logged; names that are not set (and are not the harness's, the Rust runtime's or the loader's) are answered with a truthy value; the wall clock jumps a day ahead at every reading and isatty(0..2) says yes (pseudo names <wall-clock>, <isatty> appear below when consulted)", "answer": answer,
                "names_consulted_by_harness_or_runtime": harness_names, "other_names_consulted_and_set": consulted_set, "other_names_consulted_unset_and_answered": answered},
            "profile": which, "variables_set": profile.len(), "evaluations": evals, "violations": violations, "wall_s": (t0.elapsed().as_secs_f64() * 10.0).round() / 10.0,
        }),
    ));
}

/// Unoptimised-build stage (only when ./check built that harness: C10): fast_qr at opt-level 0 with all assertions,
/// the way `cargo test` compiles it; a sixth of the quick workload plus everything that does not go through the pool
/// (the huge-input family on default-size stacks).
fn unoptimised_stage(ctx: &Ctx, prop: &str, rep: &mut Report) {
    let bin = match std::env::var_os("VCHECK_DEV_BIN").map(PathBuf::from) {
        Some(b) if b.is_file() => b,
        Some(b) => {
            rep.stats.inconclusive(format!("unoptimised-build stage: {} not found", b.display()));
            return;
        }
        None => return,
    };
    let t0 = Instant::now();
    let evdir = std::env::var_os("VCHECK_TARGET_DIR").map(PathBuf::from).unwrap_or_else(|| ctx.root.join("harness/target")).join("scratch").join(format!("devstage-{}-{}", prop, std::process::id()));
    let _ = std::fs::create_dir_all(&evdir);
    let out = Command::new(&bin)
        .args(["run", prop, "--tier", "quick"])
        .env("VCHECK_STAGE_CHILD", "environment")
        .env("VERIF_THIN", "6")
        .env("VERIF_SEED", format!("{}", (ctx.seed ^ 0xde7) as i128))
        .env("VERIF_EVIDENCE_DIR", &evdir)
        .stdin(Stdio::null())
        .output();
    let out = match out {
        Ok(o) => o,
        Err(e) => {
            rep.stats.inconclusive(format!("unoptimised-build stage: cannot start child: {e}"));
            return;
        }
    };
    let stdout = String::from_utf8_lossy(&out.stdout).to_string();
    let mut violations = 0u64;
    for line in stdout.lines() {
        if let Some(rest) = line.strip_prefix("VIOLATION ") {
            let field = |k: &str| rest.split_whitespace().find_map(|w| w.strip_prefix(&format!("{k}="))).unwrap_or("").to_string();
            let detail = rest.splitn(4, ' ').nth(3).unwrap_or("").to_string();
            rep.stats.violations.push(crate::stats::Violation {
                property: prop.to_string(),
                kind: format!("unoptimised-build:{}", field("kind")),
                detail: format!("{detail} (observed with fast_qr compiled at opt-level 0, all assertions on)"),
                job: json!({"profile": "dev", "child_replay": field("replay")}),
            });
            rep.stats.count("violations_total", 1);
            violations += 1;
        } else if line.starts_with("INCONCLUSIVE") {
            rep.stats.inconclusive(format!("unoptimised-build stage: {line}"));
        }
    }
    let ev: Option<Value> = std::fs::read_to_string(evdir.join(format!("{prop}.json"))).ok().and_then(|t| serde_json::from_str(&t).ok());
    let _ = std::fs::remove_dir_all(&evdir);
    let evals = ev.as_ref().and_then(|e| e["coverage"]["evaluations"].as_u64()).unwrap_or(0);
    if ev.is_none() && violations == 0 {
        rep.stats.inconclusive(format!("unoptimised-build stage: child ended with {:?} and no evidence", out.status.code()));
    }
    rep.stats.count("unoptimised_build_executions", evals);
    rep.extra.push(("stage_unoptimised_build".into(), json!({"what": "same monitors, a sixth of the pooled quick workload plus the un-pooled families, fast_qr compiled at opt-level 0 with overflow checks and debug assertions", "evaluations": evals, "violations": violations, "wall_s": (t0.elapsed().as_secs_f64() * 10.0).round() / 10.0})));
}

/// Plain-features stage (only when ./check built that harness: the symbol-level checks): fast_qr compiled with NO cargo
/// feature at all (neither svg nor image nor the hooks), optimised, no assertions - the library a downstream crate gets
/// by default. The renderer monitors are not compiled into this binary; everything else runs the full quick workload
/// under another seed. Code that only exists when svg/image are off is observed here and nowhere else.
fn plain_features_stage(ctx: &Ctx, prop: &str, rep: &mut Report) {
    let bin = match std::env::var_os("VCHECK_PLAIN_BIN").map(PathBuf::from) {
        Some(b) if b.is_file() => b,
        Some(b) => {
            rep.stats.inconclusive(format!("plain-features stage: {} not found (run through ./check, which builds it)", b.display()));
            return;
        }
        None => return,
    };
    let t0 = Instant::now();
    let evdir = std::env::var_os("VCHECK_TARGET_DIR").map(PathBuf::from).unwrap_or_else(|| ctx.root.join("harness/target")).join("scratch").join(format!("plainstage-{}-{}", prop, std::process::id()));
    let _ = std::fs::create_dir_all(&evdir);
    let out = Command::new(&bin)
        .args(["run", prop, "--tier", "quick"])
        .env("VCHECK_STAGE_CHILD", "release")
        .env("VCHECK_STAGE_FLAVOUR", "plain")
        .env("VERIF_SEED", format!("{}", (ctx.seed ^ 0x91a1) as i128))
        .env("VERIF_EVIDENCE_DIR", &evdir)
        .stdin(Stdio::null())
        .output();
    let out = match out {
        Ok(o) => o,
        Err(e) => {
            rep.stats.inconclusive(format!("plain-features stage: cannot start child: {e}"));
            return;
        }
    };
    let stdout = String::from_utf8_lossy(&out.stdout).to_string();
    let mut violations = 0u64;
    for line in stdout.lines() {
        if let Some(rest) = line.strip_prefix("VIOLATION ") {
            let field = |k: &str| rest.split_whitespace().find_map(|w| w.strip_prefix(&format!("{k}="))).unwrap_or("").to_string();
            let detail = rest.splitn(4, ' ').nth(3).unwrap_or("").to_string();
            let replay = field("replay");
            let job = std::fs::read_to_string(&replay).ok().and_then(|t| serde_json::from_str::<Value>(&t).ok()).map(|v| v["job"].clone()).unwrap_or(json!({"fam": "plain-features-stage"}));
            rep.stats.violations.push(crate::stats::Violation {
                property: prop.to_string(),
                kind: format!("plain-features:{}", field("kind")),
                detail: format!("{detail} (observed with fast_qr compiled with no cargo feature - neither svg nor image -, optimised, without assertions)"),
                job: json!({"profile": "release-plain", "inner": job, "child_replay": replay}),
            });
            rep.stats.count("violations_total", 1);
            violations += 1;
        } else if line.starts_with("INCONCLUSIVE") {
            rep.stats.inconclusive(format!("plain-features stage: {line}"));
        }
    }
    let ev: Option<Value> = std::fs::read_to_string(evdir.join(format!("{prop}.json"))).ok().and_then(|t| serde_json::from_str(&t).ok());
    let _ = std::fs::remove_dir_all(&evdir);
    let evals = ev.as_ref().and_then(|e| e["coverage"]["evaluations"].as_u64()).unwrap_or(0);
    if ev.is_none() && violations == 0 {
        rep.stats.inconclusive(format!("plain-features stage: child ended with {:?} and no evidence", out.status.code()));
    }
    rep.stats.count("plain_features_executions", evals);
    rep.extra.push(("stage_plain_features".into(), json!({"what": "same monitors (renderer monitors excluded), full quick workload under another seed, fast_qr compiled with no cargo feature at all (plain library: no svg, no image, no hooks), opt-level 3, no overflow checks, no debug assertions", "evaluations": evals, "violations": violations, "wall_s": (t0.elapsed().as_secs_f64() * 10.0).round() / 10.0})));
}

pub fn run(ctx: &Ctx, prop: &str, rep: &mut Report) {
    if !is_child() && !std::env::var("VERIF_NO_RELEASE_STAGE").map(|v| v == "1").unwrap_or(false) {
        unoptimised_stage(ctx, prop, rep);
        plain_features_stage(ctx, prop, rep);
    }
    if !is_child() && !std::env::var("VERIF_NO_RELEASE_STAGE").map(|v| v == "1").unwrap_or(false) {
        environment_stage(ctx, prop, rep);
    }
    if is_child() || std::env::var("VERIF_NO_RELEASE_STAGE").map(|v| v == "1").unwrap_or(false) {
        return;
    }
    let bin = match std::env::var_os("VCHECK_REL_BIN").map(PathBuf::from) {
        Some(b) if b.is_file() => b,
        other => {
            rep.stats.inconclusive(format!("release-profile stage: binary {:?} not found (run through ./check, which builds it)", other));
            return;
        }
    };
    let seeds: Vec<u64> = match ctx.tier {
        Tier::Quick => vec![ctx.seed ^ 0x5EED_0001],
        Tier::Thorough => (1..=4u64).map(|k| ctx.seed ^ (0x5EED_0000 + k)).collect(),
    };
    let t0 = Instant::now();
    let mut runs = Vec::new();
    let (mut evals, mut distinct, mut violations) = (0u64, 0u64, 0u64);
    for (k, s) in seeds.iter().enumerate() {
        let evdir = std::env::var_os("VCHECK_TARGET_DIR").map(PathBuf::from).unwrap_or_else(|| ctx.root.join("harness/target")).join("scratch").join(format!("relstage-{}-{}-{k}", prop, std::process::id()));
        let _ = std::fs::create_dir_all(&evdir);
        let out = Command::new(&bin)
            .args(["run", prop, "--tier", "quick"])
            .env("VCHECK_STAGE_CHILD", "release")
            .env("VERIF_SEED", format!("{}", *s as i128))
            .env("VERIF_EVIDENCE_DIR", &evdir)
            .stdin(Stdio::null())
            .output();
        let out = match out {
            Ok(o) => o,
            Err(e) => {
                rep.stats.inconclusive(format!("release-profile stage: cannot start {}: {e}", bin.display()));
                let _ = std::fs::remove_dir_all(&evdir);
                return;
            }
        };
        let stdout = String::from_utf8_lossy(&out.stdout).to_string();
        let code = out.status.code();
        let mut summary = String::new();
        for line in stdout.lines() {
            if let Some(rest) = line.strip_prefix("VIOLATION ") {
                // "property=<id> replay=<path> kind=<kind> <detail>"
                let field = |k: &str| rest.split_whitespace().find_map(|w| w.strip_prefix(&format!("{k}="))).unwrap_or("").to_string();
                let kind = field("kind");
                let replay = field("replay");
                let detail = rest.splitn(4, ' ').nth(3).unwrap_or("").to_string();
                let job = std::fs::read_to_string(&replay).ok().and_then(|t| serde_json::from_str::<Value>(&t).ok()).map(|v| v["job"].clone()).unwrap_or(json!({"fam": "release-profile-stage"}));
                rep.stats.violations.push(crate::stats::Violation {
                    property: prop.to_string(),
                    kind: format!("release-profile:{kind}"),
                    detail: format!("{detail} (observed with fast_qr built WITHOUT overflow checks / debug assertions, seed {s})"),
                    job: json!({"profile": "release", "inner": job, "child_replay": replay}),
                });
                rep.stats.count("violations_total", 1);
                violations += 1;
            } else if line.starts_with("INCONCLUSIVE") {
                rep.stats.inconclusive(format!("release-profile stage: {line}"));
            } else if line.starts_with("SUMMARY") {
                summary = line.chars().take(300).collect();
            }
        }
        let ev: Option<Value> = std::fs::read_to_string(evdir.join(format!("{prop}.json"))).ok().and_then(|t| serde_json::from_str(&t).ok());
        let _ = std::fs::remove_dir_all(&evdir);
        match (&ev, code) {
            (Some(ev), Some(0)) | (Some(ev), Some(1)) => {
                let e = ev["coverage"]["evaluations"].as_u64().unwrap_or(0);
                let d = ev["coverage"]["distinct_nontrivial"].as_u64().unwrap_or(0);
                evals += e;
                distinct += d;
                runs.push(json!({"seed": s, "exit": code, "evaluations": e, "distinct_nontrivial": d, "observed": ev["coverage"]["observed"], "reached": ev["coverage"]["reached"]}));
                if code == Some(1) && violations == 0 {
                    rep.stats.inconclusive("release-profile stage: child exited 1 without a VIOLATION line".into());
                }
            }
            (_, Some(2)) => {
                if !stdout.lines().any(|l| l.starts_with("INCONCLUSIVE")) {
                    rep.stats.inconclusive("release-profile stage: child exited 2".into());
                }
            }
            _ => {
                let err = String::from_utf8_lossy(&out.stderr);
                rep.stats.inconclusive(format!("release-profile stage: child ended with status {:?} and no evidence ({} / {})", out.status, summary, err.lines().last().unwrap_or("")));
            }
        }
    }
    rep.stats.count("release_profile_executions", evals);
    rep.extra.push((
        "stage_release_profile".into(),
        json!({
            "what": "same monitors and quick-tier workload, fast_qr compiled with opt-level 3, overflow-checks off, debug-assertions off (cargo profile verifrel), different seed(s)",
            "fast_qr_hook_feature": std::env::var("VCHECK_REL_FLAVOUR").map(|f| if f == "hooks" { "on (this check lives on a hook)" } else { "OFF: fast_qr exactly as users compile it" }.to_string()).unwrap_or_default(),
            "child_runs": runs, "evaluations": evals, "distinct_nontrivial_sum_over_runs": distinct, "violations": violations,
            "wall_s": (t0.elapsed().as_secs_f64() * 10.0).round() / 10.0,
        }),
    ));
}
