//! Sanitizer / interpreter stages: the `sanit` workload binary is run under Miri, TSan or
//! ASan; every digest it prints must equal the digest the native harness computes for the same
//! job (differential check), and the tool must not report anything.
//!
//! Tool failures (cannot build, cannot start) are INCONCLUSIVE, never a violation.

use crate::fw::Ctx;
use crate::stats::Stats;
use serde_json::{json, Value};
use std::collections::BTreeMap;
use std::path::PathBuf;
use std::process::{Command, Stdio};
use std::time::Instant;

pub struct StageResult {
    pub tool: &'static str,
    pub kind: String,
    pub executions: u64,
    pub digests_compared: u64,
    pub processes: u64,
    pub reports: Vec<String>,
    pub mismatches: Vec<String>,
    pub inconclusive: Option<String>,
    pub wall_s: f64,
    pub detail: String,
}

impl StageResult {
    fn new(tool: &'static str, kind: &str) -> Self {
        StageResult { tool, kind: kind.to_string(), executions: 0, digests_compared: 0, processes: 0, reports: vec![], mismatches: vec![], inconclusive: None, wall_s: 0.0, detail: String::new() }
    }
    pub fn empty() -> Self {
        StageResult::new("none", "none")
    }
    pub fn apply(self, prop: &str, st: &mut Stats, extra: &mut Vec<(String, Value)>) {
        st.count(&format!("{}_executions", self.tool), self.executions);
        st.count(&format!("{}_digests_equal_to_native", self.tool), self.digests_compared);
        st.count(&format!("{}_reports", self.tool), self.reports.len() as u64);
        for r in &self.reports {
            st.violation(prop, &format!("{}-report", self.tool), r.clone(), json!({"fam": "sanitizer-stage", "tool": self.tool, "kind": self.kind}));
        }
        for r in &self.mismatches {
            st.violation(prop, &format!("{}-digest-mismatch", self.tool), r.clone(), json!({"fam": "sanitizer-stage", "tool": self.tool, "kind": self.kind}));
        }
        if let Some(w) = &self.inconclusive {
            st.inconclusive(format!("{} stage: {w}", self.tool));
        }
        extra.push((
            format!("stage_{}", self.tool),
            json!({"workload": self.kind, "processes": self.processes, "executions": self.executions, "digests_equal_to_native": self.digests_compared,
                   "reports": self.reports.len(), "wall_s": (self.wall_s * 10.0).round() / 10.0, "detail": self.detail}),
        ));
    }
}

fn harness_dir(ctx: &Ctx) -> PathBuf {
    ctx.root.join("harness")
}

fn repo_override() -> Vec<String> {
    match std::env::var("VERIF_REPO") {
        Ok(p) if !p.is_empty() => vec!["--config".into(), format!("paths=[\"{p}\"]")],
        _ => vec![],
    }
}

fn target_suffix() -> &'static str {
    if std::env::var("VERIF_REPO").map(|p| !p.is_empty()).unwrap_or(false) {
        "-mut"
    } else {
        ""
    }
}

fn native_digests(kind: &str, seed: u64, n: usize) -> BTreeMap<usize, u64> {
    let jobs = sanit::workload(kind, seed, n);
    let st = crate::pool::run(&jobs, std::time::Duration::from_secs(600), |st, j, _| {
        let d = crate::adapter::guarded(|| sanit::exec(j)).unwrap_or(0xDEAD);
        st.reach(&format!("d{}", j.id), d);
    });
    let mut out = BTreeMap::new();
    for (k, v) in st.sets {
        if let (Ok(id), Some(d)) = (k[1..].parse::<usize>(), v.iter().next()) {
            out.insert(id, *d);
        }
    }
    out
}

fn compare(res: &mut StageResult, stdout: &str, native: &BTreeMap<usize, u64>, png_in_native_only: bool) {
    for line in stdout.lines() {
        let mut it = line.split_whitespace();
        match it.next() {
            Some("D") => {
                let id: usize = it.next().and_then(|s| s.parse().ok()).unwrap_or(usize::MAX);
                let d = it.next().and_then(|s| u64::from_str_radix(s, 16).ok()).unwrap_or(0);
                res.executions += 1;
                if png_in_native_only {
                    continue;
                }
                match native.get(&id) {
                    Some(&nd) if nd == d => res.digests_compared += 1,
                    Some(&nd) => res.mismatches.push(format!("job {id} of workload '{}': digest {d:016x} under {} differs from native {nd:016x}", res.kind, res.tool)),
                    None => res.mismatches.push(format!("job {id} unknown to the native harness")),
                }
            }
            Some("MISMATCH") => res.mismatches.push(format!("threads disagree on job {} of workload '{}' under {}", it.next().unwrap_or("?"), res.kind, res.tool)),
            _ => {}
        }
    }
}

/// Miri: `shards` interpreter processes in parallel, workload "small" (V1-V4, terminal + SVG).
/// `threads` > 1 runs every shard multi-threaded under different -Zmiri-seed values (data race
/// detector + weak memory emulation + randomised scheduling).
pub fn miri_stage_with(ctx: &Ctx, tag: &str, shards: usize, n: usize, threads: usize) -> StageResult {
    miri_stage_kind(ctx, tag, "small", shards, n, threads)
}

/// Miri over the "large" workload: one forced big version (5..=40) per interpreter process.
pub fn miri_stage_large(ctx: &Ctx, tag: &str) -> StageResult {
    let mut r = miri_stage_kind(ctx, tag, "large", 16, 16, 1);
    r.tool = "miri_large";
    r
}

pub fn miri_stage_kind(ctx: &Ctx, tag: &str, kind: &str, shards: usize, n: usize, threads: usize) -> StageResult {
    let t0 = Instant::now();
    let mut res = StageResult::new("miri", kind);
    let dir = harness_dir(ctx);
    let tdir = dir.join(format!("target-miri{}", target_suffix()));
    let seed = ctx.seed ^ 0x3141;
    // warm-up: builds the Miri sysroot and the crate once
    let mut warm = Command::new("cargo");
    warm.current_dir(&dir)
        .args(["+nightly", "miri", "run", "--offline", "-q", "-p", "sanit", "--target-dir"])
        .arg(&tdir)
        .args(repo_override())
        .args(["--", "small", "0", "0", "0", "1", "1"])
        .env("CARGO_NET_OFFLINE", "true")
        .env_remove("RUSTFLAGS")
        .stdout(Stdio::piped())
        .stderr(Stdio::piped());
    match warm.output() {
        Ok(o) if o.status.success() && String::from_utf8_lossy(&o.stdout).contains("END") => {}
        Ok(o) => {
            res.inconclusive = Some(format!("cannot start Miri ({}): {}", o.status, String::from_utf8_lossy(&o.stderr).lines().rev().take(6).collect::<Vec<_>>().join(" | ")));
            return res;
        }
        Err(e) => {
            res.inconclusive = Some(format!("cannot spawn cargo miri: {e}"));
            return res;
        }
    }
    let native = native_digests(kind, seed, n);
    let mut children = Vec::new();
    for shard in 0..shards {
        let mut c = Command::new("cargo");
        c.current_dir(&dir)
            .args(["+nightly", "miri", "run", "--offline", "-q", "-p", "sanit", "--target-dir"])
            .arg(&tdir)
            .args(repo_override())
            .args(["--", kind, &seed.to_string(), &n.to_string(), &shard.to_string(), &shards.to_string(), &threads.to_string()])
            .env("CARGO_NET_OFFLINE", "true")
            .env_remove("RUSTFLAGS")
            .stdout(Stdio::piped())
            .stderr(Stdio::piped());
        if threads > 1 {
            c.env("MIRIFLAGS", format!("-Zmiri-seed={} -Zmiri-preemption-rate=0.05", shard));
        }
        match c.spawn() {
            Ok(ch) => children.push((shard, ch)),
            Err(e) => {
                res.inconclusive = Some(format!("cannot spawn Miri shard {shard}: {e}"));
                return res;
            }
        }
    }
    for (shard, ch) in children {
        let o = match ch.wait_with_output() {
            Ok(o) => o,
            Err(e) => {
                res.inconclusive = Some(format!("Miri shard {shard}: {e}"));
                continue;
            }
        };
        res.processes += 1;
        let stdout = String::from_utf8_lossy(&o.stdout).to_string();
        let stderr = String::from_utf8_lossy(&o.stderr).to_string();
        compare(&mut res, &stdout, &native, false);
        if !o.status.success() || !stdout.contains("END") {
            // Miri reports UB / races / leaks / panics on stderr with "error:"
            let first: Vec<&str> = stderr.lines().filter(|l| l.contains("error") || l.contains("Undefined Behavior") || l.contains("panicked") || l.contains("-->")).take(8).collect();
            if stderr.contains("error: Undefined Behavior") || stderr.contains("Data race") || stderr.contains("memory leaked") || stderr.contains("panicked at") || stderr.contains("error: unsupported operation") || stderr.contains("error: abnormal termination") {
                let path = ctx.root.join("replays").join(format!("miri-{tag}-shard{shard}.log"));
                let _ = std::fs::create_dir_all(path.parent().unwrap());
                let _ = std::fs::write(&path, &stderr);
                res.reports.push(format!("Miri shard {shard} ({tag}): {} [full report: {}]", first.join(" | "), path.display()));
            } else {
                res.inconclusive = Some(format!("Miri shard {shard} ended with {} without a recognisable report: {}", o.status, stderr.lines().rev().take(5).collect::<Vec<_>>().join(" | ")));
            }
        }
    }
    res.wall_s = t0.elapsed().as_secs_f64();
    res.detail = if kind == "large" {
        format!("{shards} interpreter processes, one forced big version each (40, 36, 32, 27, 24, 21, 18, 16, 14, 12, 10, 9, 8, 7, 6, 5), random level/mode/payload, automatic mask (8 candidates scored) for 3 of 4, terminal / SVG rendering for some; isolation on, leak check on")
    } else {
        format!("{shards} interpreter processes x {threads} thread(s), {n} jobs (versions 1-4, all levels/modes, terminal + SVG rendering), isolation on, leak check on")
    };
    res
}

pub fn miri_stage(ctx: &Ctx, tag: &str, shards: usize) -> StageResult {
    let n = ctx.scale(240);
    miri_stage_with(ctx, tag, shards, n, 1)
}

fn build_sanitized(ctx: &Ctx, tool: &'static str, rustflags: &str, build_std: bool, res: &mut StageResult) -> Option<PathBuf> {
    let dir = harness_dir(ctx);
    let tdir = dir.join(format!("target-{tool}{}", target_suffix()));
    let mut c = Command::new("cargo");
    c.current_dir(&dir).args(["+nightly", "build", "--offline", "-q", "-p", "sanit", "--features", "image", "--profile", "sanitize", "--target", "x86_64-unknown-linux-gnu", "--target-dir"]).arg(&tdir).args(repo_override());
    if build_std {
        c.arg("-Zbuild-std");
    }
    c.env("RUSTFLAGS", rustflags).env("CARGO_NET_OFFLINE", "true").stdout(Stdio::piped()).stderr(Stdio::piped());
    match c.output() {
        Ok(o) if o.status.success() => Some(tdir.join("x86_64-unknown-linux-gnu/sanitize/sanit")),
        Ok(o) => {
            res.inconclusive = Some(format!("{tool} build failed: {}", String::from_utf8_lossy(&o.stderr).lines().rev().take(6).collect::<Vec<_>>().join(" | ")));
            None
        }
        Err(e) => {
            res.inconclusive = Some(format!("cannot spawn cargo for {tool} build: {e}"));
            None
        }
    }
}

/// ThreadSanitizer: 16 threads, every thread runs all jobs (build + terminal + SVG + PNG) in its
/// own order; `reps` repetitions with different seeds.
pub fn tsan_stage(ctx: &Ctx, reps: usize) -> StageResult {
    let t0 = Instant::now();
    let mut res = StageResult::new("tsan", "mixed");
    let bin = match build_sanitized(ctx, "tsan", "-Zsanitizer=thread", true, &mut res) {
        Some(b) => b,
        None => return res,
    };
    let n = ctx.scale(160);
    for rep in 0..reps {
        let seed = ctx.seed ^ (0x7541 + rep as u64);
        let native = native_digests("mixed", seed, n);
        let o = Command::new(&bin)
            .args(["mixed", &seed.to_string(), &n.to_string(), "0", "1", "16"])
            .env("TSAN_OPTIONS", "halt_on_error=0 exitcode=66 report_signal_unsafe=0")
            .stdout(Stdio::piped())
            .stderr(Stdio::piped())
            .output();
        let o = match o {
            Ok(o) => o,
            Err(e) => {
                res.inconclusive = Some(format!("cannot run TSan binary: {e}"));
                return res;
            }
        };
        res.processes += 1;
        let stdout = String::from_utf8_lossy(&o.stdout).to_string();
        let stderr = String::from_utf8_lossy(&o.stderr).to_string();
        compare(&mut res, &stdout, &native, false);
        let nrep = stderr.matches("WARNING: ThreadSanitizer").count();
        if nrep > 0 || o.status.code() == Some(66) {
            let path = ctx.root.join("replays").join(format!("tsan-rep{rep}.log"));
            let _ = std::fs::create_dir_all(path.parent().unwrap());
            let _ = std::fs::write(&path, &stderr);
            let first: Vec<&str> = stderr.lines().filter(|l| l.contains("WARNING: ThreadSanitizer") || l.trim_start().starts_with("#0") || l.trim_start().starts_with("#1")).take(5).collect();
            res.reports.push(format!("ThreadSanitizer: {nrep} report(s) in repetition {rep}: {} [full: {}]", first.join(" | "), path.display()));
        } else if !o.status.success() || !stdout.contains("END") {
            res.inconclusive = Some(format!("TSan run ended with {}: {}", o.status, stderr.lines().rev().take(4).collect::<Vec<_>>().join(" | ")));
        }
    }
    res.wall_s = t0.elapsed().as_secs_f64();
    res.detail = format!("{reps} repetitions x 16 threads x {n} jobs each (versions 1-12, build + terminal + SVG + PNG via resvg), std rebuilt with -Zbuild-std so every frame is instrumented");
    res
}

/// AddressSanitizer over the render-heavy workload (resvg / tiny-skia contain the only unsafe
/// code reachable from the crate).
pub fn asan_stage(ctx: &Ctx) -> StageResult {
    let t0 = Instant::now();
    let mut res = StageResult::new("asan", "render");
    let bin = match build_sanitized(ctx, "asan", "-Zsanitizer=address -Cforce-frame-pointers=yes", false, &mut res) {
        Some(b) => b,
        None => return res,
    };
    let n = ctx.scale(600);
    let shards = 16;
    let seed = ctx.seed ^ 0xa5a1;
    let native = native_digests("render", seed, n);
    let mut children = Vec::new();
    for shard in 0..shards {
        let ch = Command::new(&bin)
            .args(["render", &seed.to_string(), &n.to_string(), &shard.to_string(), &shards.to_string(), "1"])
            .env("ASAN_OPTIONS", "halt_on_error=1:detect_leaks=1:abort_on_error=0:exitcode=67")
            .stdout(Stdio::piped())
            .stderr(Stdio::piped())
            .spawn();
        match ch {
            Ok(c) => children.push((shard, c)),
            Err(e) => {
                res.inconclusive = Some(format!("cannot run ASan binary: {e}"));
                return res;
            }
        }
    }
    let mut seen = std::collections::BTreeSet::new();
    for (shard, ch) in children {
        let o = match ch.wait_with_output() {
            Ok(o) => o,
            Err(e) => {
                res.inconclusive = Some(format!("ASan shard {shard}: {e}"));
                continue;
            }
        };
        res.processes += 1;
        let stdout = String::from_utf8_lossy(&o.stdout).to_string();
        let stderr = String::from_utf8_lossy(&o.stderr).to_string();
        compare(&mut res, &stdout, &native, false);
        if stderr.contains("ERROR: AddressSanitizer") || stderr.contains("ERROR: LeakSanitizer") || o.status.code() == Some(67) {
            // dedupe by first in-repo / first frame
            let key = stderr.lines().find(|l| l.trim_start().starts_with("#0") || l.trim_start().starts_with("#1")).unwrap_or("?").to_string();
            if seen.insert(key.clone()) {
                let path = ctx.root.join("replays").join(format!("asan-shard{shard}.log"));
                let _ = std::fs::create_dir_all(path.parent().unwrap());
                let _ = std::fs::write(&path, &stderr);
                let head = stderr.lines().find(|l| l.contains("ERROR:")).unwrap_or("");
                res.reports.push(format!("{head} first frame {key} [full: {}]", path.display()));
            }
        } else if !o.status.success() || !stdout.contains("END") {
            res.inconclusive = Some(format!("ASan shard {shard} ended with {}: {}", o.status, stderr.lines().rev().take(4).collect::<Vec<_>>().join(" | ")));
        }
    }
    res.wall_s = t0.elapsed().as_secs_f64();
    res.detail = format!("{shards} processes, {n} jobs (versions 1-40, 6 shapes, PNG at 3 px/module through usvg/resvg/tiny-skia), leak detection on");
    res
}
