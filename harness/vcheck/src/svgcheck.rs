//! SVG oracle: strict XML parse (roxmltree, independent of the crate's string templates),
//! then structure, colours, sub-path geometry and the image element.

use crate::render::Spec;
use fast_qr::QRCode;
use oracle::svgpath;

#[derive(Debug, Clone)]
pub struct Elem {
    pub name: String,
    pub attrs: Vec<(String, String)>,
}

impl Elem {
    pub fn attr(&self, k: &str) -> Option<&str> {
        self.attrs.iter().find(|(n, _)| n == k).map(|(_, v)| v.as_str())
    }
    pub fn num(&self, k: &str) -> Option<f64> {
        let v = self.attr(k)?;
        v.strip_suffix("px").unwrap_or(v).trim().parse().ok()
    }
}

pub struct Doc {
    pub viewbox: [f64; 4],
    pub elems: Vec<Elem>,
}

pub type V = (String, String);

fn bad<T>(kind: &str, detail: String) -> Result<T, V> {
    Err((kind.to_string(), detail))
}

pub fn parse(svg: &str) -> Result<Doc, V> {
    let doc = match roxmltree::Document::parse(svg) {
        Ok(d) => d,
        Err(e) => return bad("not-well-formed", format!("XML parser: {e}")),
    };
    let root = doc.root_element();
    if root.tag_name().name() != "svg" {
        return bad("root-element", format!("root element is <{}>", root.tag_name().name()));
    }
    let vb = root.attribute("viewBox").unwrap_or("");
    let nums: Vec<f64> = vb.split(|c: char| c.is_whitespace() || c == ',').filter(|s| !s.is_empty()).filter_map(|s| s.parse().ok()).collect();
    if nums.len() != 4 {
        return bad("viewbox", format!("viewBox=\"{vb}\""));
    }
    let mut elems = Vec::new();
    for n in root.children() {
        if n.is_element() {
            if n.children().any(|c| c.is_element()) {
                return bad("nested-elements", format!("<{}> has child elements", n.tag_name().name()));
            }
            elems.push(Elem { name: n.tag_name().name().to_string(), attrs: n.attributes().map(|a| (a.name().to_string(), a.value().to_string())).collect() });
        } else if n.is_text() && !n.text().unwrap_or("").trim().is_empty() {
            return bad("stray-text", format!("text node {:?} inside <svg>", n.text().unwrap_or("")));
        }
    }
    Ok(Doc { viewbox: [nums[0], nums[1], nums[2], nums[3]], elems })
}

#[derive(Default)]
pub struct Counts {
    pub subpaths: u64,
    pub layers: u64,
    pub image_elements: u64,
    pub split_layers: u64,
}

/// C12's statement, checked on one document.
pub fn check_svg(svg: &str, qr: &QRCode, spec: &Spec) -> Result<Counts, V> {
    let doc = parse(svg)?;
    let n = qr.size;
    let margin = spec.margin_value();
    let side = (n + 2 * margin) as f64;
    if doc.viewbox != [0.0, 0.0, side, side] {
        return bad("viewbox", format!("viewBox {:?}, expected 0 0 {side} {side} (size {n} + 2 x margin {margin})", doc.viewbox));
    }
    let mut it = doc.elems.iter();
    // background rectangle
    let bg = match it.next() {
        Some(e) if e.name == "rect" => e,
        other => return bad("background-missing", format!("first element is {:?}, expected the background <rect>", other.map(|e| &e.name))),
    };
    if bg.num("width") != Some(side) || bg.num("height") != Some(side) {
        return bad("background-size", format!("background rect is {:?} x {:?}, expected {side}", bg.attr("width"), bg.attr("height")));
    }
    if bg.num("x").unwrap_or(0.0) != 0.0 || bg.num("y").unwrap_or(0.0) != 0.0 {
        return bad("background-position", "background rect is not anchored at the origin".into());
    }
    let want_bg = spec.background_colour();
    if !want_bg.matches(bg.attr("fill").unwrap_or("")) {
        return bad("background-colour", format!("background fill {:?}, configured {:?}", bg.attr("fill"), want_bg.expected()));
    }
    // layers
    let layers: Vec<(usize, Option<crate::render::Colour>)> = if spec.layers.is_empty() { vec![(0, None)] } else { spec.layers.clone() };
    let mut dark = vec![false; n * n];
    let mut ndark = 0usize;
    for i in 0..n * n {
        if qr.data[i].value() {
            dark[i] = true;
            ndark += 1;
        }
    }
    let mut counts = Counts::default();
    for (li, (shape, colour)) in layers.iter().enumerate() {
        // a layer is one <path>, or several consecutive <path> elements that together carry one sub-path per dark
        // module (a writer may split long path data): elements are taken until the layer has its ndark sub-paths
        let want = colour.clone().unwrap_or_else(|| spec.module_colour());
        let mut sps = Vec::new();
        let mut elements = 0;
        loop {
            let p = match it.next() {
                Some(e) if e.name == "path" => e,
                other => {
                    if elements == 0 {
                        return bad("layer-missing", format!("layer {li}: found {:?} where a <path> was expected ({} layers configured)", other.map(|e| &e.name), layers.len()));
                    }
                    // put nothing back: the count check below reports the shortfall
                    if let Some(e) = other {
                        return bad("subpath-missing", format!("layer {li}: {} sub-paths in {elements} <path> element(s) for {ndark} dark modules, next element is <{}>", sps.len(), e.name));
                    }
                    break;
                }
            };
            if !want.matches(p.attr("fill").unwrap_or("")) {
                return bad("layer-colour", format!("layer {li} ({}): fill {:?}, expected {:?}", crate::render::SHAPE_NAMES[*shape], p.attr("fill"), want.expected()));
            }
            match svgpath::subpaths(p.attr("d").unwrap_or("")) {
                Ok(s) => sps.extend(s),
                Err(e) => return bad("path-syntax", format!("layer {li}: {e}")),
            }
            elements += 1;
            if sps.len() >= ndark {
                break;
            }
        }
        if elements > 1 {
            counts.split_layers += 1;
        }
        let mut seen = vec![false; n * n];
        // glyph of this layer relative to its cell, taken from the first sub-path: a built-in shape is one
        // glyph translated to (column+margin, row+margin), so every other sub-path must be the same glyph
        let mut glyph: Option<([f64; 4], usize, bool)> = None;
        for sp in &sps {
            let (cx, cy) = sp.centre();
            let col = cx.floor();
            let row = cy.floor();
            let rel = [sp.min.0 - col, sp.min.1 - row, sp.max.0 - col, sp.max.1 - row];
            match &glyph {
                None => glyph = Some((rel, sp.segments, sp.closed)),
                Some((g, segs, closed)) => {
                    if rel.iter().zip(g.iter()).any(|(a, b)| (a - b).abs() > 1e-6) || *segs != sp.segments || *closed != sp.closed {
                        return bad("subpath-glyph-varies", format!("layer {li}: sub-path at {:?} occupies {:?} of its cell with {} segments, the first sub-path of the layer occupies {:?} with {} segments: not one shape translated to each module", sp.start, rel, sp.segments, g, segs));
                    }
                }
            }
            const TOL: f64 = 0.06;
            if sp.min.0 < col - TOL || sp.max.0 > col + 1.0 + TOL || sp.min.1 < row - TOL || sp.max.1 > row + 1.0 + TOL {
                return bad("subpath-spans-cells", format!("layer {li}: sub-path starting at {:?} has bounding box {:?}..{:?}, not inside one unit cell", sp.start, sp.min, sp.max));
            }
            if sp.width() < 0.3 || sp.height() < 0.3 {
                return bad("subpath-degenerate", format!("layer {li}: sub-path at {:?} has extent {:.3} x {:.3}", sp.start, sp.width(), sp.height()));
            }
            let (c, r) = (col as isize - margin as isize, row as isize - margin as isize);
            if c < 0 || r < 0 || c >= n as isize || r >= n as isize {
                return bad("subpath-in-quiet-zone", format!("layer {li}: sub-path in cell ({col},{row}) lies outside the symbol (margin {margin}, size {n})"));
            }
            let idx = r as usize * n + c as usize;
            if !dark[idx] {
                return bad("subpath-on-light-module", format!("layer {li}: sub-path drawn for light module (column {c}, row {r})"));
            }
            if seen[idx] {
                return bad("subpath-duplicate", format!("layer {li}: two sub-paths for module (column {c}, row {r})"));
            }
            seen[idx] = true;
        }
        if sps.len() != ndark {
            let missing = (0..n * n).find(|&i| dark[i] && !seen[i]).unwrap_or(0);
            return bad("subpath-missing", format!("layer {li}: {} sub-paths for {ndark} dark modules; first dark module without one: column {}, row {}", sps.len(), missing % n, missing / n));
        }
        counts.subpaths += sps.len() as u64;
        counts.layers += 1;
    }
    // image
    let rest: Vec<&Elem> = it.collect();
    let images: Vec<&&Elem> = rest.iter().filter(|e| e.name == "image").collect();
    match &spec.image {
        None => {
            if !rest.is_empty() {
                return bad("unexpected-element", format!("no image configured but the document has extra elements {:?}", rest.iter().map(|e| &e.name).collect::<Vec<_>>()));
            }
        }
        Some(s) => {
            if images.len() != 1 {
                return bad("image-element-count", format!("{} <image> elements for one configured image", images.len()));
            }
            // A TAB, LF or CR written literally into an attribute value reaches the reader as a blank (XML 1.0 3.3.3;
            // CR LF is one line end, 2.11, and a parser may or may not fold it before normalising): the crate writes
            // them literally, a writer that used character references would hand back the string itself. All three
            // readings are "the configured reference"; a writer that DROPS or adds characters matches none of them.
            let href = images[0].attr("href");
            let folded: String = s.replace("\r\n", "\n").chars().map(|c| if matches!(c, '\t' | '\n' | '\r') { ' ' } else { c }).collect();
            let unfolded: String = s.chars().map(|c| if matches!(c, '\t' | '\n' | '\r') { ' ' } else { c }).collect();
            if href != Some(s.as_str()) && href != Some(folded.as_str()) && href != Some(unfolded.as_str()) {
                return bad("image-href", format!("href parses to {:?}, configured string is {:?} (blanks for TAB/LF/CR accepted)", href, s));
            }
            if rest.iter().any(|e| e.name == "path") {
                return bad("unexpected-element", "more <path> elements than configured layers".into());
            }
            counts.image_elements = 1;
        }
    }
    Ok(counts)
}

