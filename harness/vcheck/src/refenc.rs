//! Second, independent encoder: the `qrcode` crate (kennytm), driven through its `bits`,
//! `ec` and `canvas` modules so that mode, version, level and mask are all forced.
//! Used (a) to validate the oracle before it judges fast_qr and (b) to double-check an
//! oracle verdict ("oracle-suspect" guard). It is never the deciding oracle by itself.

use oracle::decode::Matrix;
use qrcode::bits::Bits;
use qrcode::canvas::{Canvas, MaskPattern};
use qrcode::types::{Color, EcLevel, Version};

const EC: [EcLevel; 4] = [EcLevel::L, EcLevel::M, EcLevel::Q, EcLevel::H];
const MP: [MaskPattern; 8] = [
    MaskPattern::Checkerboard,
    MaskPattern::HorizontalLines,
    MaskPattern::VerticalLines,
    MaskPattern::DiagonalLines,
    MaskPattern::LargeCheckerboard,
    MaskPattern::Fields,
    MaskPattern::Diamonds,
    MaskPattern::Meadow,
];

/// Data codewords (segment + terminator + padding) as the qrcode crate produces them.
pub fn data_codewords(mode: usize, version: usize, level: usize, input: &[u8]) -> Result<Vec<u8>, String> {
    let mut bits = Bits::new(Version::Normal(version as i16));
    let r = match mode {
        0 => bits.push_numeric_data(input),
        1 => bits.push_alphanumeric_data(input),
        _ => bits.push_byte_data(input),
    };
    r.map_err(|e| format!("{e:?}"))?;
    bits.push_terminator(EC[level]).map_err(|e| format!("{e:?}"))?;
    Ok(bits.into_bytes())
}

/// Capacity in bits of (version, level) according to the qrcode crate.
pub fn max_bits(version: usize, level: usize) -> usize {
    Bits::new(Version::Normal(version as i16)).max_len(EC[level]).expect("valid version")
}

/// Whole symbol from data codewords.
pub fn symbol_from_data(version: usize, level: usize, mask: usize, data: &[u8]) -> Result<Matrix, String> {
    let v = Version::Normal(version as i16);
    let (d, e) = qrcode::ec::construct_codewords(data, v, EC[level]).map_err(|e| format!("{e:?}"))?;
    let mut c = Canvas::new(v, EC[level]);
    c.draw_all_functional_patterns();
    c.draw_data(&d, &e);
    c.apply_mask(MP[mask]);
    let colors = c.into_colors();
    let size = 17 + 4 * version;
    if colors.len() != size * size {
        return Err("unexpected canvas size".into());
    }
    // qrcode's canvas is indexed (x, y) -> y * width + x, i.e. row-major
    Ok(Matrix { size, dark: colors.into_iter().map(|c| c == Color::Dark).collect() })
}

pub fn symbol(mode: usize, version: usize, level: usize, mask: usize, input: &[u8]) -> Result<Matrix, String> {
    let d = data_codewords(mode, version, level, input)?;
    symbol_from_data(version, level, mask, &d)
}

/// true where the qrcode crate has drawn a function pattern (after
/// `draw_all_functional_patterns`, everything still `Empty` is the encoding region).
pub fn functional_map(version: usize) -> Vec<bool> {
    let v = Version::Normal(version as i16);
    let mut c = Canvas::new(v, EcLevel::L);
    c.draw_all_functional_patterns();
    let w = 17 + 4 * version;
    let mut out = Vec::with_capacity(w * w);
    for r in 0..w {
        for col in 0..w {
            out.push(c.get(col as i16, r as i16) != qrcode::canvas::Module::Empty);
        }
    }
    out
}
