//! Coverage-guided stage (thorough tier): the libFuzzer target `harness/fuzz` links the real
//! fast_qr (sanitizer-coverage instrumentation incl. compare tracing, overflow checks and debug
//! assertions on) together with the oracle crate and judges every build in-process. Coverage and
//! compared-value feedback steer the inputs into branches of fast_qr that content-oblivious
//! generators never take (a magic prefix, a special byte value). 16 independent fuzzer processes
//! share one corpus directory for a fixed time budget.
//!
//! A crash artifact whose message is "VIOLATION property=<this property> ..." (or a panic /
//! overflow inside build()) is a violation with the artifact as replay; tool failures are
//! INCONCLUSIVE. What the stage observed (runs, coverage, corpus) goes into the evidence.

use crate::fw::Ctx;
use crate::stats::Stats;
use serde_json::{json, Value};
use std::path::{Path, PathBuf};
use std::process::{Command, Stdio};
use std::time::Instant;

const SANCOV: &str = "-Cpasses=sancov-module -Cllvm-args=-sanitizer-coverage-level=4 -Cllvm-args=-sanitizer-coverage-inline-8bit-counters -Cllvm-args=-sanitizer-coverage-pc-table -Cllvm-args=-sanitizer-coverage-trace-compares --cfg fuzzing -Cllvm-args=-simplifycfg-branch-fold-threshold=0";

fn suffix() -> &'static str {
    if std::env::var("VERIF_REPO").map(|p| !p.is_empty()).unwrap_or(false) {
        "-mut"
    } else {
        ""
    }
}

fn target_dir(ctx: &Ctx) -> PathBuf {
    match std::env::var_os("VCHECK_TARGET_DIR") {
        Some(t) if !suffix().is_empty() => PathBuf::from(format!("{}-fuzz", PathBuf::from(t).display())),
        _ => ctx.root.join("harness/target-fuzz"),
    }
}

pub fn build(ctx: &Ctx) -> Result<PathBuf, String> {
    let dir = ctx.root.join("harness/fuzz");
    let tdir = target_dir(ctx);
    let mut c = Command::new("cargo");
    c.current_dir(&dir).args(["+nightly", "build", "--offline", "--release", "-q", "--target", "x86_64-unknown-linux-gnu", "--target-dir"]).arg(&tdir);
    if let Ok(p) = std::env::var("VERIF_REPO") {
        if !p.is_empty() {
            c.arg("--config").arg(format!("paths=[\"{p}\"]"));
        }
    }
    c.env("RUSTFLAGS", SANCOV).env("CARGO_NET_OFFLINE", "true").stdout(Stdio::piped()).stderr(Stdio::piped());
    match c.output() {
        Ok(o) if o.status.success() => Ok(tdir.join("x86_64-unknown-linux-gnu/release/build_oracle")),
        Ok(o) => Err(format!("fuzz target build failed: {}", String::from_utf8_lossy(&o.stderr).lines().filter(|l| l.starts_with("error")).take(3).collect::<Vec<_>>().join(" | "))),
        Err(e) => Err(format!("cannot spawn cargo for the fuzz target: {e}")),
    }
}

/// classify the stderr of a fuzzer process that found something
fn finding(stderr: &str, prop: &str) -> Option<(String, String)> {
    if let Some(l) = stderr.lines().find(|l| l.starts_with("VIOLATION ")) {
        let field = |k: &str| l.split_whitespace().find_map(|w| w.strip_prefix(&format!("{k}="))).unwrap_or("").to_string();
        let p = field("property");
        let detail = l.splitn(4, ' ').nth(3).unwrap_or("").to_string();
        let kind = if p == prop { format!("fuzz:{}", field("kind")) } else { format!("fuzz:{p}/{}", field("kind")) };
        return Some((kind, detail));
    }
    if let Some(l) = stderr.lines().find(|l| l.contains("panicked at")) {
        let msg = stderr.lines().skip_while(|x| !x.contains("panicked at")).take(2).collect::<Vec<_>>().join(" ");
        let kind = if msg.contains("overflow") { "fuzz:arithmetic-overflow" } else if msg.contains("index") || msg.contains("out of range") { "fuzz:index-out-of-bounds" } else { "fuzz:panic" };
        let _ = l;
        return Some((kind.to_string(), format!("build() panicked under the fuzzer: {msg}")));
    }
    if stderr.contains("ERROR: libFuzzer: timeout") {
        return Some(("fuzz:timeout".into(), "one execution exceeded the fuzzer's per-input time limit".into()));
    }
    None
}

pub fn stage(ctx: &Ctx, prop: &str, seconds: u64, st: &mut Stats, extra: &mut Vec<(String, Value)>) {
    let t0 = Instant::now();
    let bin = match build(ctx) {
        Ok(b) => b,
        Err(e) => {
            st.inconclusive(format!("fuzz stage: {e}"));
            return;
        }
    };
    let work = target_dir(ctx).join(format!("run-{prop}-{}", std::process::id()));
    let _ = std::fs::remove_dir_all(&work);
    let (corpus, art) = (work.join("corpus"), work.join("art"));
    if std::fs::create_dir_all(&corpus).is_err() || std::fs::create_dir_all(&art).is_err() {
        st.inconclusive(format!("fuzz stage: cannot create {}", work.display()));
        return;
    }
    let seeds = ctx.root.join("harness/fuzz/seeds");
    let workers = crate::pool::threads().min(16);
    let mut children = Vec::new();
    for w in 0..workers {
        let ch = Command::new(&bin)
            .arg(format!("-max_total_time={seconds}"))
            .args(["-timeout=60", "-use_value_profile=1", "-max_len=160", "-print_final_stats=1", "-rss_limit_mb=2048"])
            .arg(format!("-seed={}", (ctx.seed as u32).wrapping_add(w as u32 * 7919).max(1)))
            .arg(format!("-artifact_prefix={}/", art.display()))
            .arg(&corpus)
            .arg(&seeds)
            .env("VERIF_FUZZ_PROPS", prop)
            .current_dir(&work)
            .stdout(Stdio::null())
            .stderr(Stdio::piped())
            .spawn();
        match ch {
            Ok(c) => children.push(c),
            Err(e) => {
                st.inconclusive(format!("fuzz stage: cannot start {}: {e}", bin.display()));
                let _ = std::fs::remove_dir_all(&work);
                return;
            }
        }
    }
    let (mut runs, mut cov, mut ft, mut findings) = (0u64, 0u64, 0u64, 0u64);
    let mut seen = std::collections::BTreeSet::new();
    for (w, ch) in children.into_iter().enumerate() {
        let o = match ch.wait_with_output() {
            Ok(o) => o,
            Err(e) => {
                st.inconclusive(format!("fuzz stage: worker {w}: {e}"));
                continue;
            }
        };
        let stderr = String::from_utf8_lossy(&o.stderr).to_string();
        let num = |key: &str| -> u64 { stderr.lines().rev().find_map(|l| l.split_whitespace().collect::<Vec<_>>().windows(2).find(|p| p[0] == key).and_then(|p| p[1].parse().ok())).unwrap_or(0) };
        runs += stderr.lines().find_map(|l| l.strip_prefix("stat::number_of_executed_units:").and_then(|x| x.trim().parse::<u64>().ok())).unwrap_or(0);
        cov = cov.max(num("cov:"));
        ft = ft.max(num("ft:"));
        if o.status.success() {
            continue;
        }
        match finding(&stderr, prop) {
            Some((kind, detail)) => {
                findings += 1;
                let artifact = stderr.lines().find_map(|l| l.split("Test unit written to ").nth(1)).map(|s| s.trim().to_string());
                let bytes = artifact.as_ref().and_then(|a| std::fs::read(a).ok()).unwrap_or_default();
                if kind == "fuzz:timeout" {
                    // a wall-clock limit is not a verdict on a loaded machine: the input is run again, alone, with a
                    // generous limit. Finishing there = the machine was busy (recorded, not a finding); not finishing
                    // within 180 s (normal: a millisecond) = non-termination, which is C10's clause
                    let f = work.join(format!("timeout-{w}.bin"));
                    let _ = std::fs::write(&f, &bytes);
                    let t1 = Instant::now();
                    let alone = Command::new(&bin).arg("-timeout=180").arg(&f).env("VERIF_FUZZ_PROPS", prop).stdout(Stdio::null()).stderr(Stdio::piped()).output();
                    let finished = matches!(&alone, Ok(o) if o.status.success());
                    if finished {
                        findings -= 1;
                        st.count("fuzz_inputs_slow_under_load_that_finish_alone", 1);
                        st.notes.push(format!("fuzz worker {w}: one input exceeded 60 s while the machine was loaded and finished alone in {:.1} s (not a finding)", t1.elapsed().as_secs_f64()));
                        continue;
                    }
                    if prop != "C10" {
                        st.inconclusive(format!("fuzz stage: worker {w}: one input does not finish within 180 s even alone (non-termination is C10's clause; artifact {})", crate::adapter::hex(&bytes)));
                        continue;
                    }
                }
                if seen.insert((kind.clone(), oracle::rng::fnv(&bytes))) {
                    st.violation(prop, &kind, format!("{detail} (found by the coverage-guided stage, worker {w})"), json!({"fam": "fuzz-artifact", "hex": crate::adapter::hex(&bytes), "props": prop}));
                }
            }
            None => st.inconclusive(format!("fuzz stage: worker {w} ended with {} without a recognisable finding: {}", o.status, stderr.lines().rev().take(3).collect::<Vec<_>>().join(" | "))),
        }
    }
    let corpus_n = std::fs::read_dir(&corpus).map(|d| d.count()).unwrap_or(0);
    let _ = std::fs::remove_dir_all(&work);
    if runs == 0 && findings == 0 {
        st.inconclusive("fuzz stage: no executions were counted".into());
    }
    st.count("fuzz_executions", runs);
    extra.push((
        "stage_fuzz".into(),
        json!({
            "what": "libFuzzer (sanitizer coverage + compare tracing + value profile) over harness/fuzz: 4 option bytes + payload (<= 160 bytes), real fast_qr build judged in-process by the oracle crate for this property",
            "workers": workers, "seconds_per_worker": seconds, "executions": runs, "edges_covered": cov, "features": ft, "corpus_files": corpus_n, "findings": findings,
            "wall_s": (t0.elapsed().as_secs_f64() * 10.0).round() / 10.0,
        }),
    ));
}

/// replay of a fuzz artifact: run the fuzz target on exactly these bytes
pub fn replay(ctx: &Ctx, prop: &str, job: &Value) -> Option<Stats> {
    let bytes = crate::adapter::unhex(job.get("hex")?.as_str()?)?;
    let mut st = Stats::new();
    st.eval();
    let bin = match build(ctx) {
        Ok(b) => b,
        Err(e) => {
            st.inconclusive(e);
            return Some(st);
        }
    };
    let f: &Path = &target_dir(ctx).join(format!("replay-{}.bin", std::process::id()));
    let _ = std::fs::write(f, &bytes);
    let o = Command::new(&bin).arg(f).env("VERIF_FUZZ_PROPS", job.get("props").and_then(|p| p.as_str()).unwrap_or(prop)).stdout(Stdio::null()).stderr(Stdio::piped()).output();
    let _ = std::fs::remove_file(f);
    match o {
        Ok(o) => {
            let stderr = String::from_utf8_lossy(&o.stderr).to_string();
            if let Some((kind, detail)) = finding(&stderr, prop) {
                st.violation(prop, &kind, detail, job.clone());
            }
        }
        Err(e) => st.inconclusive(format!("cannot run the fuzz target: {e}")),
    }
    Some(st)
}
