//! Worker pool: N threads with big stacks pull job indices from a shared counter; each has
//! its own `Stats`, merged at the end. A watchdog (wall clock) only ever yields INCONCLUSIVE.

use crate::stats::Stats;
use std::sync::atomic::{AtomicBool, AtomicUsize, Ordering};
use std::time::{Duration, Instant};

pub fn threads() -> usize {
    std::env::var("VERIF_THREADS")
        .ok()
        .and_then(|s| s.parse().ok())
        .unwrap_or_else(|| std::thread::available_parallelism().map(|n| n.get()).unwrap_or(4).min(16))
}

pub const STACK: usize = 64 << 20;

static ORDER_SEED: std::sync::atomic::AtomicU64 = std::sync::atomic::AtomicU64::new(0x5EED);

/// Seed of the job-order shuffle (set once from VERIF_SEED by `Ctx::new`).
pub fn set_order_seed(seed: u64) {
    ORDER_SEED.store(seed, Ordering::Relaxed);
}

/// Workloads are generated in a systematic order (version 1..40, level, mask ...). Executed in
/// that order every worker thread would only ever see symbols of non-decreasing size, which is
/// exactly the history that hides state kept between calls (a scratch buffer or cache that only
/// grows). The pool therefore executes a seeded permutation of the job list: every worker sees
/// big and small symbols, all modes and levels, interleaved.
fn permutation(n: usize) -> Vec<u32> {
    let mut order: Vec<u32> = (0..n as u32).collect();
    let mut rng = oracle::rng::Rng::new(ORDER_SEED.load(Ordering::Relaxed) ^ 0x0bde_0bde ^ n as u64);
    for i in (1..n).rev() {
        let j = rng.below(i + 1);
        order.swap(i, j);
    }
    order
}

/// Run `work(stats, &jobs[i], i)` for every i on a pool. Returns merged stats.
/// `deadline`: if exceeded, remaining jobs are skipped and an inconclusive note is recorded.
pub fn run<J: Sync>(jobs: &[J], deadline: Duration, work: impl Fn(&mut Stats, &J, usize) + Sync) -> Stats {
    let next = AtomicUsize::new(0);
    let timed_out = AtomicBool::new(false);
    let started = Instant::now();
    let order = permutation(jobs.len());
    let order = &order;
    let thin: u64 = std::env::var("VERIF_THIN").ok().and_then(|s| s.parse().ok()).unwrap_or(1);
    let thin_phase = ORDER_SEED.load(Ordering::Relaxed) % thin.max(1);
    let n = threads().min(jobs.len().max(1));
    let mut merged = Stats::new();
    let results: Vec<Stats> = std::thread::scope(|s| {
        let mut hs = Vec::new();
        for w in 0..n {
            let next = &next;
            let timed_out = &timed_out;
            let work = &work;
            let h = std::thread::Builder::new()
                .name(format!("worker-{w}"))
                .stack_size(STACK)
                .spawn_scoped(s, move || {
                    let mut st = Stats::new();
                    loop {
                        let i = next.fetch_add(1, Ordering::Relaxed);
                        if i >= jobs.len() {
                            break;
                        }
                        let i = order[i] as usize;
                        // child stages that only look for a dependence on something global (the process environment)
                        // run a thinned workload: every n-th job, which ones rotates with the seed
                        if thin > 1 && (i as u64 + thin_phase) % thin != 0 {
                            continue;
                        }
                        if st.evaluations % 64 == 0 && started.elapsed() > deadline {
                            timed_out.store(true, Ordering::Relaxed);
                        }
                        if timed_out.load(Ordering::Relaxed) {
                            break;
                        }
                        // a panic inside a MONITOR (my oracle or glue code met a state it did not expect) must not
                        // end the process silently: it is recorded as inconclusive with its message and location
                        // (panics of the crate under test are caught closer to the call and judged by the monitor)
                        if let Err(msg) = crate::adapter::guarded(|| work(&mut st, &jobs[i], i)) {
                            st.inconclusive(format!("harness error: the monitor itself panicked on job {i}: {msg}"));
                        }
                    }
                    st
                })
                .expect("spawn worker");
            hs.push(h);
        }
        hs.into_iter().map(|h| h.join().expect("worker thread itself must not panic")).collect()
    });
    for r in results {
        merged.merge(r);
    }
    if timed_out.load(Ordering::Relaxed) {
        merged.inconclusive(format!(
            "watchdog: workload exceeded {} s wall clock, {} of {} jobs started",
            deadline.as_secs(),
            next.load(Ordering::Relaxed).min(jobs.len()),
            jobs.len()
        ));
    }
    merged
}

/// Run one closure on a fresh big-stack thread (fresh thread-locals, fresh stack).
pub fn on_fresh_thread<T: Send>(f: impl FnOnce() -> T + Send) -> T {
    std::thread::scope(|s| {
        std::thread::Builder::new()
            .stack_size(STACK)
            .spawn_scoped(s, f)
            .expect("spawn")
            .join()
            .expect("fresh thread panicked outside guarded section")
    })
}
