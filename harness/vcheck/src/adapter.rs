//! The boundary between the harness and fast_qr: every call into the crate goes through
//! here, under catch_unwind, and comes back as a plain record.

use fast_qr::{Mask, Mode, ModuleType, QRBuilder, QRCode, Version, ECL};
use oracle::decode::Matrix;
use std::cell::RefCell;
use std::panic::{self, AssertUnwindSafe};

pub const VERSIONS: [Version; 40] = [
    Version::V01, Version::V02, Version::V03, Version::V04, Version::V05, Version::V06, Version::V07, Version::V08,
    Version::V09, Version::V10, Version::V11, Version::V12, Version::V13, Version::V14, Version::V15, Version::V16,
    Version::V17, Version::V18, Version::V19, Version::V20, Version::V21, Version::V22, Version::V23, Version::V24,
    Version::V25, Version::V26, Version::V27, Version::V28, Version::V29, Version::V30, Version::V31, Version::V32,
    Version::V33, Version::V34, Version::V35, Version::V36, Version::V37, Version::V38, Version::V39, Version::V40,
];
pub const LEVELS: [ECL; 4] = [ECL::L, ECL::M, ECL::Q, ECL::H];
pub const MASKS: [Mask; 8] = [
    Mask::Checkerboard,
    Mask::HorizontalLines,
    Mask::VerticalLines,
    Mask::DiagonalLines,
    Mask::LargeCheckerboard,
    Mask::Fields,
    Mask::Diamonds,
    Mask::Meadow,
];
pub const MODES: [Mode; 3] = [Mode::Numeric, Mode::Alphanumeric, Mode::Byte];

pub fn version_no(v: Version) -> usize {
    v as usize + 1
}
pub fn level_no(l: ECL) -> usize {
    l as usize
}
pub fn mask_no(m: Mask) -> usize {
    m as usize
}
pub fn mode_no(m: Mode) -> usize {
    match m {
        Mode::Numeric => 0,
        Mode::Alphanumeric => 1,
        Mode::Byte => 2,
    }
}

/// One build request: options are None (automatic) or the forced value
/// (mode 0..3, level 0..4, version 1..=40, mask 0..8).
#[derive(Clone, Debug, Default, PartialEq, Eq)]
pub struct Config {
    pub input: Vec<u8>,
    pub mode: Option<usize>,
    pub level: Option<usize>,
    pub version: Option<usize>,
    pub mask: Option<usize>,
}

impl Config {
    pub fn new(input: &[u8]) -> Self {
        Config { input: input.to_vec(), ..Default::default() }
    }
    pub fn describe(&self) -> String {
        format!(
            "len={} mode={} level={} version={} mask={}",
            self.input.len(),
            self.mode.map_or("auto".into(), |m| oracle::tables::MODE_NAMES[m].to_string()),
            self.level.map_or("auto".into(), |l| oracle::tables::LEVEL_NAMES[l].to_string()),
            self.version.map_or("auto".into(), |v| v.to_string()),
            self.mask.map_or("auto".into(), |m| m.to_string()),
        )
    }
    pub fn to_json(&self) -> serde_json::Value {
        serde_json::json!({
            "input_hex": hex(&self.input),
            "len": self.input.len(),
            "mode": self.mode, "level": self.level, "version": self.version, "mask": self.mask,
        })
    }
    pub fn from_json(v: &serde_json::Value) -> Option<Self> {
        let g = |k: &str| v.get(k).and_then(|x| x.as_u64()).map(|x| x as usize);
        Some(Config {
            input: unhex(v.get("input_hex")?.as_str()?)?,
            mode: g("mode"),
            level: g("level"),
            version: g("version"),
            mask: g("mask"),
        })
    }
    /// The four setters are called in an order that is a deterministic function of the configuration (all 24
    /// orders occur over a workload), and a third of the time a setter is first called with ANOTHER value
    /// (the last value wins): a configuration is its final option values, not the way they were reached.
    /// deterministic function of the configuration: seeds the setter history, the input carrier and the transport
    pub fn history_seed(&self) -> u64 {
        let mut h = oracle::rng::mix(self.input.len() as u64 ^ 0x5e77e2, oracle::rng::fnv(&self.input[..self.input.len().min(16)]));
        for x in [self.mode, self.level, self.version, self.mask] {
            h = oracle::rng::mix(h, x.map_or(99, |v| v as u64));
        }
        h
    }
    pub fn builder(&self) -> QRBuilder {
        let h = self.history_seed();
        let mut rng = oracle::rng::Rng::new(h);
        let mut order = [0usize, 1, 2, 3];
        for i in (1..4).rev() {
            order.swap(i, rng.below(i + 1));
        }
        let mut b = self.new_builder_with_carrier(&mut rng);
        // A quarter of the builders have been USED before: some of the options that are going to be set are first
        // set to other values, the builder is built (result discarded), and only then do the real values follow.
        // Options left automatic are never touched (the API cannot unset them), so the final state is exactly this
        // configuration; a builder that keeps anything from its earlier build() would show here, in every check.
        if rng.chance(1, 4) {
            // phase 1: every option gets its real value, except a non-empty subset that gets another value; build;
            // phase 2 (below) then sets ONLY that subset to its real values: the options that were right all along are
            // not touched again (a setter that happens to reset hidden state must not be relied upon)
            let mut pending = [false; 4];
            let mut any = false;
            if let Some(m) = self.mode {
                if rng.chance(1, 3) {
                    b.mode(MODES[2]);
                    pending[0] = true;
                    any = true;
                } else {
                    b.mode(MODES[m]);
                }
            }
            if let Some(l) = self.level {
                if rng.chance(1, 3) {
                    b.ecl(LEVELS[(l + 1 + rng.below(3)) % 4]);
                    pending[1] = true;
                    any = true;
                } else {
                    b.ecl(LEVELS[l]);
                }
            }
            if let Some(v) = self.version {
                if rng.chance(1, 2) {
                    // often a LARGER version than the real one (the first build then succeeds whenever the second does)
                    let d = if rng.chance(2, 3) { (v + 1 + rng.below(6)).min(40) } else { 1 + rng.below(40) };
                    b.version(VERSIONS[d - 1]);
                    pending[2] = true;
                    any = true;
                } else {
                    b.version(VERSIONS[v - 1]);
                }
            }
            if let Some(m) = self.mask {
                if rng.chance(1, 3) {
                    b.mask(MASKS[(m + 1 + rng.below(7)) % 8]);
                    pending[3] = true;
                    any = true;
                } else {
                    b.mask(MASKS[m]);
                }
            }
            if any {
                let _ = b.build();
                for which in order {
                    if !pending[which] {
                        continue;
                    }
                    match which {
                        0 => {
                            b.mode(MODES[self.mode.unwrap()]);
                        }
                        1 => {
                            b.ecl(LEVELS[self.level.unwrap()]);
                        }
                        2 => {
                            b.version(VERSIONS[self.version.unwrap() - 1]);
                        }
                        _ => {
                            b.mask(MASKS[self.mask.unwrap()]);
                        }
                    }
                }
            }
            return b;
        }
        for which in order {
            let decoy = rng.chance(1, 3);
            match which {
                0 => {
                    if let Some(m) = self.mode {
                        if decoy {
                            // any other mode, also one whose alphabet does not contain the input: it is overridden
                            // before anything is built, so it must leave no trace (not even on the stored input)
                            b.mode(MODES[(m + 1 + rng.below(2)) % 3]);
                        }
                        b.mode(MODES[m]);
                    }
                }
                1 => {
                    if let Some(l) = self.level {
                        if decoy {
                            b.ecl(LEVELS[(l + 1 + rng.below(3)) % 4]);
                        }
                        b.ecl(LEVELS[l]);
                    }
                }
                2 => {
                    if let Some(v) = self.version {
                        if decoy {
                            b.version(VERSIONS[rng.below(40)]);
                        }
                        b.version(VERSIONS[v - 1]);
                    }
                }
                _ => {
                    if let Some(m) = self.mask {
                        if decoy {
                            b.mask(MASKS[(m + 1 + rng.below(7)) % 8]);
                        }
                        b.mask(MASKS[m]);
                    }
                }
            }
        }
        b
    }
    /// `QRBuilder::new` takes `impl Into<Vec<u8>>`: the same bytes can arrive in a freshly cloned vector, in a vector
    /// with spare capacity (reserved up front, grown by pushes, or left over after truncating a longer buffer), as a
    /// borrowed slice, or - when they are UTF-8 - as a `String` / `&str`. "Same input" means same bytes: the carrier
    /// and its allocation history are chosen here as a deterministic function of the configuration, so every check
    /// sees all of them and the history monitor compares them with the plain clone of `builder_canonical`.
    fn new_builder_with_carrier(&self, rng: &mut oracle::rng::Rng) -> QRBuilder {
        const SPARE: [usize; 8] = [1, 7, 64, 4096, 7090, 8192, 23_649, 1 << 16];
        match rng.below(8) {
            0 | 1 => QRBuilder::new(self.input.clone()),
            2 => {
                let mut v = Vec::with_capacity(self.input.len() + SPARE[rng.below(SPARE.len())]);
                v.extend_from_slice(&self.input);
                QRBuilder::new(v)
            }
            3 => {
                // grown one push at a time (amortised doubling leaves whatever capacity the allocator chose)
                let mut v = Vec::new();
                for &x in &self.input {
                    v.push(x);
                }
                QRBuilder::new(v)
            }
            4 => {
                // a recycled scratch buffer: it held something longer before
                let extra = SPARE[rng.below(SPARE.len())];
                let mut v: Vec<u8> = (0..self.input.len() + extra).map(|i| (i as u8) ^ 0xA5).collect();
                v.clear();
                v.extend_from_slice(&self.input);
                QRBuilder::new(v)
            }
            5 => QRBuilder::new(&self.input[..]),
            6 => match std::str::from_utf8(&self.input) {
                Ok(s) => QRBuilder::new(s),
                Err(_) => QRBuilder::new(self.input.clone().into_boxed_slice().into_vec()),
            },
            _ => match std::str::from_utf8(&self.input) {
                Ok(s) => {
                    let mut o = String::with_capacity(s.len() + SPARE[rng.below(SPARE.len())]);
                    o.push_str(s);
                    QRBuilder::new(o)
                }
                Err(_) => QRBuilder::new(&self.input[..]),
            },
        }
    }
    /// one call per option in a fixed order (reference of the history monitor)
    pub fn builder_canonical(&self) -> QRBuilder {
        let mut b = QRBuilder::new(self.input.clone());
        if let Some(m) = self.mode {
            b.mode(MODES[m]);
        }
        if let Some(l) = self.level {
            b.ecl(LEVELS[l]);
        }
        if let Some(v) = self.version {
            b.version(VERSIONS[v - 1]);
        }
        if let Some(m) = self.mask {
            b.mask(MASKS[m]);
        }
        b
    }
}

pub fn hex(b: &[u8]) -> String {
    let mut s = String::with_capacity(b.len() * 2);
    for x in b {
        s.push_str(&format!("{x:02x}"));
    }
    s
}

pub fn unhex(s: &str) -> Option<Vec<u8>> {
    if s.len() % 2 != 0 {
        return None;
    }
    (0..s.len() / 2).map(|i| u8::from_str_radix(&s[2 * i..2 * i + 2], 16).ok()).collect()
}

pub fn short_hex(b: &[u8]) -> String {
    if b.len() <= 24 {
        hex(b)
    } else {
        format!("{}..({} bytes)", hex(&b[..24]), b.len())
    }
}

pub enum Outcome {
    Ok(Box<QRCode>),
    TooBig,
    VersionTooSmall,
    Panic(String),
}

impl Outcome {
    pub fn kind(&self) -> &'static str {
        match self {
            Outcome::Ok(_) => "Ok",
            Outcome::TooBig => "Err(EncodedData)",
            Outcome::VersionTooSmall => "Err(SpecifiedVersion)",
            Outcome::Panic(_) => "panic",
        }
    }
    pub fn describe(&self) -> String {
        match self {
            Outcome::Panic(m) => format!("panic: {m}"),
            o => o.kind().to_string(),
        }
    }
}

thread_local! {
    static LAST_PANIC: RefCell<Option<String>> = const { RefCell::new(None) };
}

/// Install a panic hook that keeps the message (with location) for the catching thread and
/// prints nothing: panics inside the crate under test are observations, not noise.
pub fn install_panic_hook() {
    panic::set_hook(Box::new(|info| {
        let msg = if let Some(s) = info.payload().downcast_ref::<&str>() {
            s.to_string()
        } else if let Some(s) = info.payload().downcast_ref::<String>() {
            s.clone()
        } else {
            "<non-string panic payload>".to_string()
        };
        let loc = info.location().map(|l| format!(" at {}:{}", l.file(), l.line())).unwrap_or_default();
        let full = format!("{msg}{loc}");
        if std::env::var_os("VCHECK_PANIC_TRACE").is_some() {
            eprintln!("[panic] {full}");
        }
        LAST_PANIC.with(|p| *p.borrow_mut() = Some(full));
    }));
}

/// Run `f` under catch_unwind; Err carries the panic message and location.
pub fn guarded<T>(f: impl FnOnce() -> T) -> Result<T, String> {
    LAST_PANIC.with(|p| *p.borrow_mut() = None);
    match panic::catch_unwind(AssertUnwindSafe(f)) {
        Ok(v) => Ok(v),
        Err(_) => Err(LAST_PANIC.with(|p| p.borrow_mut().take()).unwrap_or_else(|| "panic".into())),
    }
}

thread_local! {
    static LAST_ERROR_TEXT: RefCell<Option<(String, String)>> = const { RefCell::new(None) };
}

/// (Display, Debug) of the error the last `outcome_of` on this thread saw: what a user who prints the error reads
pub fn last_error_text() -> Option<(String, String)> {
    LAST_ERROR_TEXT.with(|t| t.borrow().clone())
}

pub fn outcome_of(r: Result<Result<QRCode, fast_qr::qr::QRCodeError>, String>) -> Outcome {
    if let Ok(Err(e)) = &r {
        let texts = guarded(|| (format!("{e}"), format!("{e:?}"))).unwrap_or_else(|p| (format!("<formatting the error panicked: {p}>"), String::new()));
        LAST_ERROR_TEXT.with(|t| *t.borrow_mut() = Some(texts));
    }
    match r {
        Ok(Ok(q)) => Outcome::Ok(Box::new(q)),
        Ok(Err(fast_qr::qr::QRCodeError::EncodedData)) => Outcome::TooBig,
        Ok(Err(fast_qr::qr::QRCodeError::SpecifiedVersion)) => Outcome::VersionTooSmall,
        Err(m) => Outcome::Panic(m),
    }
}

/// The crate's public surface is more than the builder: `datamasking::mask` (public, hidden from the docs),
/// `QRCode::default(size)`, the text renderer, requests that are refused. One build in six is preceded, on the same thread, by a call of that
/// other API on a hand-made value - usually of exactly the side the coming symbol will have. Whatever such a call
/// leaves behind may not reach the build that follows.
fn foreign_api_primer(cfg: &Config, h: u64) {
    let mut rng = oracle::rng::Rng::new(oracle::rng::mix(h, 0xf0e1));
    if !rng.chance(1, 6) {
        return;
    }
    let side = match cfg.version {
        Some(v) if rng.chance(3, 4) => 17 + 4 * v,
        _ => 17 + 4 * (1 + rng.below(40)),
    };
    let _ = guarded(|| match rng.below(6) {
        4 | 5 => {
            // a request the crate refuses by panicking (a forced mode whose alphabet does not contain the input: the
            // documented assertion), caught here like an application would, with the options of the coming build:
            // whatever the unwinding left half-done on this thread may not reach the build that follows
            let n = 1 + rng.below(14);
            let numeric = rng.chance(1, 2);
            let mut bytes: Vec<u8> = (0..n).map(|_| if numeric { b'0' + rng.below(10) as u8 } else { *rng.pick(b"ABCXYZ019 $%*+-./:") }).collect();
            let at = rng.below(bytes.len());
            bytes[at] = *rng.pick(b"xa~,\x00\xff");
            let mut b = QRBuilder::new(bytes);
            b.mode(if numeric { MODES[0] } else { MODES[1] });
            if let Some(v) = cfg.version {
                b.version(VERSIONS[v - 1]);
            }
            if let Some(l) = cfg.level {
                b.ecl(LEVELS[l]);
            }
            std::hint::black_box(b.build().is_ok());
        }
        0 | 1 => {
            let mut q = QRCode::default(side);
            fast_qr::datamasking::mask(&mut q, MASKS[rng.below(8)]);
            std::hint::black_box(&q);
        }
        2 => {
            let mut q = QRCode::default(side);
            for m in MASKS {
                fast_qr::datamasking::mask(&mut q, m);
            }
            std::hint::black_box(&q);
        }
        _ => {
            let q = QRCode::default(side);
            std::hint::black_box(q.to_str());
        }
    });
}

/// Build through the public API.
pub fn build(cfg: &Config) -> Outcome {
    let h = cfg.history_seed();
    foreign_api_primer(cfg, h);
    outcome_of(guarded(|| cfg.builder().build().map(|q| transport(q, h))))
}

/// The monitors are handed "the symbol that was built" - but a value of a `Clone` type reaches its user in many ways:
/// as returned, as a `clone()`, assigned with `clone_from` into a slot that held a smaller, an equal or a bigger
/// symbol (directly or through `Option` / `Vec` / `Box`, the form `clippy::assigning_clones` produces), or handed
/// over from another thread. All of them must be the same symbol. The slots' unused tails hold default modules, as
/// any `QRCode` made by the crate does, so a correct copy of either the square or the whole array is accepted.
pub fn transport(q: QRCode, h: u64) -> QRCode {
    let mut rng = oracle::rng::Rng::new(oracle::rng::mix(h, 0x7a115));
    let slot_side = |rng: &mut oracle::rng::Rng, q: &QRCode| -> usize {
        match rng.below(4) {
            0 => 21,
            1 => 177,
            2 => q.size,
            _ => 17 + 4 * (1 + rng.below(40)),
        }
    };
    match rng.below(16) {
        0..=7 => q,
        8 => q.clone(),
        9 | 10 => {
            let mut slot = QRCode::default(slot_side(&mut rng, &q));
            slot.clone_from(&q);
            slot
        }
        11 => {
            let mut slot = Some(QRCode::default(slot_side(&mut rng, &q)));
            slot.clone_from(&Some(q));
            slot.unwrap()
        }
        12 => {
            let mut slot = vec![QRCode::default(slot_side(&mut rng, &q))];
            slot.clone_from(&vec![q]);
            slot.pop().unwrap()
        }
        13 => {
            let mut slot = Box::new(QRCode::default(slot_side(&mut rng, &q)));
            slot.clone_from(&Box::new(q));
            *slot
        }
        14 => {
            let boxed = Box::new(q);
            match std::thread::Builder::new().stack_size(1 << 20).spawn(move || boxed) {
                Ok(j) => *j.join().expect("transport thread"),
                Err(_) => unreachable!("cannot spawn the transport thread"),
            }
        }
        _ => {
            // clone of a clone, the original dropped in between
            let c = q.clone();
            drop(q);
            let mut slot = QRCode::default(21);
            slot.clone_from(&c);
            slot
        }
    }
}

/// build through one setter call per option in a fixed order (reference of the history monitor)
pub fn build_canonical(cfg: &Config) -> Outcome {
    outcome_of(guarded(|| cfg.builder_canonical().build()))
}

pub struct Recorded {
    pub mask: usize,
    pub score: u32,
    pub size: usize,
    pub modules: Vec<u8>,
}

impl Recorded {
    pub fn matrix(&self) -> Matrix {
        Matrix { size: self.size, dark: self.modules.iter().map(|m| m & 1 == 1).collect() }
    }
}

/// Build with the candidate recorder hook armed; returns what the selection loop reported.
#[cfg(feature = "hooks")]
pub fn build_recorded(cfg: &Config) -> (Outcome, Vec<Recorded>) {
    // the builder (and whatever earlier build its history contains) is prepared BEFORE the recorder is armed
    foreign_api_primer(cfg, cfg.history_seed());
    let b = match guarded(|| cfg.builder()) {
        Ok(b) => b,
        Err(p) => return (Outcome::Panic(p), vec![]),
    };
    fast_qr::verif_hooks::start();
    let h = cfg.history_seed();
    let out = outcome_of(guarded(|| b.build().map(|q| transport(q, h))));
    let rec = fast_qr::verif_hooks::take()
        .into_iter()
        .map(|c| Recorded { mask: mask_no(c.mask), score: c.score, size: c.size, modules: c.modules })
        .collect();
    (out, rec)
}

/// harness built without fast_qr's hook feature (release-profile child): nothing is recorded, the monitors fall back to
/// what the public API shows
#[cfg(not(feature = "hooks"))]
pub fn build_recorded(cfg: &Config) -> (Outcome, Vec<Recorded>) {
    (build(cfg), vec![])
}

/// A QRCode value assembled by hand from the public fields: `QRCode::default(size)` plus the module data; version,
/// level, mask and mode stay `None`. Renderers are given "a QR code": they must work from its size and modules.
pub fn hand_assembled(qr: &QRCode) -> QRCode {
    let mut h = QRCode::default(qr.size);
    h.data = qr.data;
    h
}

/// A built symbol edited through the public API (`QRCode.data`, `Module::set` / `toggle`, the `Module` constructors)
/// before it is rendered: renderers are given "a QR code" and must follow its module VALUES, whatever the type labels
/// next to them say and whether or not the matrix is still a valid symbol. Returns the edited copy and what was done.
pub fn edited_by_hand(qr: &QRCode, seed: u64) -> (QRCode, String) {
    let mut rng = oracle::rng::Rng::new(oracle::rng::mix(seed, 0xed17));
    let mut e = qr.clone();
    let n = e.size;
    let what = match rng.below(10) {
        7 | 8 => {
            // whole modules (value and label) of different value trade places: every count, sum or checksum over the
            // matrix stays what it was
            let swaps = 1 + rng.below(6);
            let mut done = 0;
            for _ in 0..swaps * 20 {
                let (a, b) = (rng.below(n * n), rng.below(n * n));
                if e.data[a].value() != e.data[b].value() {
                    e.data.swap(a, b);
                    done += 1;
                    if done == swaps {
                        break;
                    }
                }
            }
            format!("{done} pair(s) of modules of different value swapped")
        }
        9 => {
            for r in 0..n {
                e.data[r * n..(r + 1) * n].reverse();
            }
            "every row mirrored".to_string()
        }
        0 | 1 => {
            let edits = 1 + rng.below(4);
            for k in 0..edits {
                let (r, c) = match (k + rng.below(2)) % 4 {
                    0 => (rng.below(n), rng.below(n.min(12))),
                    1 => (rng.below(n.min(12)), rng.below(n)),
                    2 => (rng.below(n), n - 1 - rng.below(n.min(6))),
                    _ => (rng.below(n), rng.below(n)),
                };
                e.data[r * n + c].toggle();
            }
            format!("{edits} module(s) toggled")
        }
        2 => {
            for m in e.data[..n * n].iter_mut() {
                m.toggle();
            }
            "every module toggled (inverted symbol)".to_string()
        }
        3 => {
            let to = rng.chance(1, 2);
            for m in e.data[..n * n].iter_mut() {
                if m.module_type() != ModuleType::Data {
                    m.set(to);
                }
            }
            format!("every function-pattern module set {}", if to { "dark" } else { "light" })
        }
        4 => {
            let mut k = 0;
            for m in e.data[..n * n].iter_mut() {
                if matches!(m.module_type(), ModuleType::DarkModule | ModuleType::Format | ModuleType::Version) {
                    m.toggle();
                    k += 1;
                }
            }
            format!("the dark module and every format/version module toggled ({k})")
        }
        5 => {
            for m in e.data[..n * n].iter_mut() {
                *m = fast_qr::Module::data(m.value());
            }
            "every module relabelled as Data, values kept".to_string()
        }
        _ => {
            for m in e.data[..n * n].iter_mut() {
                *m = fast_qr::Module::empty(m.value());
            }
            "every module relabelled as Empty, values kept".to_string()
        }
    };
    (e, what)
}

/// Module values of the size x size square.
pub fn matrix_of(qr: &QRCode) -> Matrix {
    let n = qr.size;
    Matrix { size: n, dark: qr.data[..n * n].iter().map(|m| m.value()).collect() }
}

pub fn label_name(t: ModuleType) -> &'static str {
    match t {
        ModuleType::Data => "Data",
        ModuleType::FinderPattern => "FinderPattern",
        ModuleType::Alignment => "Alignment",
        ModuleType::Timing => "Timing",
        ModuleType::Format => "Format",
        ModuleType::Version => "Version",
        ModuleType::DarkModule => "DarkModule",
        ModuleType::Empty => "Empty",
    }
}

/// Digest of everything observable on a QRCode (all 177*177 raw module bytes + fields).
pub fn digest(qr: &QRCode) -> u64 {
    let mut h = 0xcbf2_9ce4_8422_2325u64;
    let mut feed = |b: u8| {
        h ^= b as u64;
        h = h.wrapping_mul(0x0000_0100_0000_01B3);
    };
    for m in qr.data.iter() {
        feed(m.0);
    }
    for b in (qr.size as u64).to_le_bytes() {
        feed(b);
    }
    feed(qr.version.map_or(0xFF, |v| v as u8));
    feed(qr.ecl.map_or(0xFF, |v| v as u8));
    feed(qr.mask.map_or(0xFF, |v| v as u8));
    feed(qr.mode.map_or(0xFF, |v| mode_no(v) as u8));
    h
}
