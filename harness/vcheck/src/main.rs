mod adapter;
mod cells;
mod collide;
mod craft;
mod fuzz;
mod fw;
mod hostile_alloc;
mod job;
mod pool;
mod props;
mod refenc;
mod relstage;
#[cfg(feature = "render")]
mod render;
#[cfg(feature = "render")]
mod sanit;
mod selfcheck;
mod stats;
#[cfg(feature = "render")]
mod svgcheck;
mod symbol;
mod termcheck;

use fw::{Ctx, Tier};

#[global_allocator]
static ALLOCATOR: hostile_alloc::Hostile = hostile_alloc::Hostile;

fn usage() -> ! {
    eprintln!("usage: vcheck selfcheck [--full] | vcheck run <ID> [--tier quick|thorough] | vcheck replay <file>");
    std::process::exit(2);
}

fn seed() -> u64 {
    std::env::var("VERIF_SEED").ok().and_then(|s| s.trim().parse::<i128>().ok()).map(|v| v as u64).unwrap_or(12648430)
}

fn run_prop(id: &str, ctx: &Ctx) -> Option<fw::Report> {
    Some(match id {
        #[cfg(feature = "render")]
        "C19" => props::c19::run(ctx),
        #[cfg(feature = "render")]
        "C14" => props::c14::run(ctx),
        #[cfg(all(feature = "hooks", feature = "render"))]
        "C17" => props::c17::run(ctx),
        #[cfg(feature = "render")]
        "C13" => props::c13::run(ctx),
        #[cfg(feature = "render")]
        "C18" => props::c18::run(ctx),
        "C01" => props::c01::run(ctx),
        "C02" => props::c02::run(ctx),
        "C03" => props::c03::run(ctx),
        "C04" => props::c04::run(ctx),
        "C05" => props::c05::run(ctx),
        "C06" => props::c06::run(ctx),
        "C08" => props::c08::run(ctx),
        "C09" => props::c09::run(ctx),
        "C10" => props::c10::run(ctx),
        #[cfg(feature = "hooks")]
        "C07" => props::c07::run(ctx),
        "C11" => props::c11::run(ctx),
        #[cfg(feature = "render")]
        "C12" => props::c12::run(ctx),
        "C16" => props::c16::run(ctx),
        "C15" => props::c15::run(ctx),
        _ => return None,
    })
}

fn replay_prop(id: &str, ctx: &Ctx, job: &serde_json::Value) -> Option<stats::Stats> {
    match id {
        #[cfg(feature = "render")]
        "C19" => props::c19::replay(ctx, job),
        #[cfg(feature = "render")]
        "C14" => props::c14::replay(ctx, job),
        #[cfg(all(feature = "hooks", feature = "render"))]
        "C17" => props::c17::replay(ctx, job),
        #[cfg(feature = "render")]
        "C13" => props::c13::replay(ctx, job),
        #[cfg(feature = "render")]
        "C18" => props::c18::replay(ctx, job),
        "C01" => props::c01::replay(ctx, job),
        "C02" => props::c02::replay(ctx, job),
        "C03" => props::c03::replay(ctx, job),
        "C04" => props::c04::replay(ctx, job),
        "C06" => props::c06::replay(ctx, job),
        "C08" => props::c08::replay(ctx, job),
        "C05" => props::c05::replay(ctx, job),
        "C09" => props::c09::replay(ctx, job),
        "C10" => props::c10::replay(ctx, job),
        #[cfg(feature = "hooks")]
        "C07" => props::c07::replay(ctx, job),
        "C11" => props::c11::replay(ctx, job),
        #[cfg(feature = "render")]
        "C12" => props::c12::replay(ctx, job),
        "C16" => props::c16::replay(ctx, job),
        "C15" => props::c15::replay(ctx, job),
        _ => None,
    }
}

fn main() {
    adapter::install_panic_hook();
    let args: Vec<String> = std::env::args().collect();
    if args.len() < 2 {
        usage();
    }
    match args[1].as_str() {
        "selfcheck" => {
            let full = args.iter().any(|a| a == "--full");
            let t = std::time::Instant::now();
            match selfcheck::run(full, seed()) {
                Ok(r) => {
                    for d in &r.details {
                        println!("selfcheck: {d}");
                    }
                    println!("selfcheck ok: {} symbols, {} cells, {:.2}s", r.symbols, r.cells, t.elapsed().as_secs_f64());
                }
                Err(e) => {
                    println!("INCONCLUSIVE oracle-selfcheck failed: {e}");
                    std::process::exit(2);
                }
            }
        }
        "run" => {
            if args.len() < 3 {
                usage();
            }
            let id = args[2].clone();
            let mut tier = match std::env::var("VERIF_TIER").as_deref() {
                Ok("thorough") => Tier::Thorough,
                _ => Tier::Quick,
            };
            let mut i = 3;
            while i < args.len() {
                match args[i].as_str() {
                    "--tier" if i + 1 < args.len() => {
                        tier = match args[i + 1].as_str() {
                            "thorough" => Tier::Thorough,
                            "quick" => Tier::Quick,
                            _ => usage(),
                        };
                        i += 2;
                    }
                    "quick" => {
                        tier = Tier::Quick;
                        i += 1;
                    }
                    "thorough" => {
                        tier = Tier::Thorough;
                        i += 1;
                    }
                    _ => usage(),
                }
            }
            let ctx = Ctx::new(tier, seed());
            let sc = match selfcheck::run(tier == Tier::Thorough, ctx.seed) {
                Ok(r) => r.details,
                Err(e) => {
                    println!("INCONCLUSIVE property={id} oracle-selfcheck failed: {e}");
                    std::process::exit(2);
                }
            };
            let mut rep = match run_prop(&id, &ctx) {
                Some(r) => r,
                None => {
                    println!("INCONCLUSIVE unknown property {id}");
                    std::process::exit(2);
                }
            };
            if tier == Tier::Thorough && !relstage::is_child() && ["C01", "C02", "C04", "C05", "C06", "C09", "C10"].contains(&id.as_str()) {
                let mut extra = std::mem::take(&mut rep.extra);
                fuzz::stage(&ctx, &id, ctx.scale(150) as u64, &mut rep.stats, &mut extra);
                rep.extra = extra;
            }
            relstage::run(&ctx, &id, &mut rep);
            let code = fw::finish(&ctx, &id, rep, &sc);
            std::process::exit(code);
        }
        #[cfg(feature = "render")]
        "stage" => {
            // debugging aid: run one sanitizer stage alone
            let ctx = Ctx::new(Tier::Thorough, seed());
            let mut st = stats::Stats::new();
            let mut extra = vec![];
            let r = match args.get(2).map(|s| s.as_str()) {
                Some("miri") => sanit::miri_stage(&ctx, "dbg", 16),
                Some("miri-large") => sanit::miri_stage_large(&ctx, "dbglarge"),
                Some("miri-mt") => sanit::miri_stage_with(&ctx, "dbgmt", 16, ctx.scale(48), 3),
                Some("tsan") => sanit::tsan_stage(&ctx, 1),
                Some("asan") => sanit::asan_stage(&ctx),
                Some("dark") => {
                    for (v, k) in job::Job::dark_count_cells() {
                        let t = std::time::Instant::now();
                        let r = craft::payload_for_dark_count(v, 0, 2, k, 7, 12_000);
                        let n = 17 + 4 * v;
                        println!("v{v} k{k} ({:.1}% of {}): {} in {:.2}s", 100.0 * k as f64 / (n * n) as f64, n * n, r.is_some(), t.elapsed().as_secs_f64());
                    }
                    sanit::StageResult::empty()
                }
                Some("fuzz") => {
                    fuzz::stage(&ctx, args.get(3).map(|s| s.as_str()).unwrap_or("C06"), args.get(4).and_then(|s| s.parse().ok()).unwrap_or(30), &mut st, &mut extra);
                    sanit::StageResult::empty()
                }
                _ => usage(),
            };
            r.apply("STAGE", &mut st, &mut extra);
            println!("{}", serde_json::to_string_pretty(&extra).unwrap());
            for v in &st.violations {
                println!("VIOLATION {} {}", v.kind, v.detail);
            }
            for w in &st.inconclusive {
                println!("INCONCLUSIVE {w}");
            }
        }
        #[cfg(feature = "render")]
        "c19-child" => {
            std::process::exit(props::c19::child_main(args.get(2).map(|s| s.as_str()).unwrap_or(""), args.get(3).map(|s| s.as_str()).unwrap_or("")));
        }
        #[cfg(feature = "render")]
        "c14-child" => {
            let g = |i: usize| args.get(i).and_then(|s| s.parse::<u64>().ok()).unwrap_or(0);
            std::process::exit(props::c14::child_main(g(2), g(3) as usize, g(4) as usize));
        }
        "c16-child" => {
            let g = |i: usize| args.get(i).and_then(|s| s.parse::<u64>().ok()).unwrap_or(0);
            std::process::exit(props::c16::child_main(g(2), g(3) as usize));
        }
        "c10-child" => {
            std::process::exit(props::c10::child_main(args.get(2).map(|s| s.as_str()).unwrap_or("")));
        }
        "replay" => {
            if args.len() < 3 {
                usage();
            }
            let text = std::fs::read_to_string(&args[2]).unwrap_or_else(|e| {
                eprintln!("cannot read {}: {e}", args[2]);
                std::process::exit(2)
            });
            let v: serde_json::Value = serde_json::from_str(&text).unwrap_or_else(|e| {
                eprintln!("bad replay file: {e}");
                std::process::exit(2)
            });
            let id = v["property"].as_str().unwrap_or("").to_string();
            let s = v["seed"].as_u64().unwrap_or_else(seed);
            let tier = if v["tier"].as_str() == Some("thorough") { Tier::Thorough } else { Tier::Quick };
            let ctx = Ctx::new(tier, s);
            let replayed = if v["job"]["fam"].as_str() == Some("fuzz-artifact") { fuzz::replay(&ctx, &id, &v["job"]) } else { replay_prop(&id, &ctx, &v["job"]) };
            match replayed {
                Some(st) => {
                    if st.violations.is_empty() && st.known.is_empty() {
                        println!("replay: property {id} held on this execution ({} evaluations)", st.evaluations);
                        for w in &st.inconclusive {
                            println!("INCONCLUSIVE {w}");
                        }
                        std::process::exit(if st.inconclusive.is_empty() { 0 } else { 2 });
                    }
                    for (k, (n, w)) in &st.known {
                        println!("KNOWN-FINDING: property={id} id={k} {w} ({n} instances)");
                    }
                    for x in &st.violations {
                        println!("VIOLATION property={} replay={} kind={} {}", x.property, args[2], x.kind, x.detail);
                    }
                    std::process::exit(if st.violations.is_empty() { 0 } else { 1 });
                }
                None => {
                    println!("INCONCLUSIVE cannot replay this file (unknown property or job family)");
                    std::process::exit(2);
                }
            }
        }
        _ => usage(),
    }
}
