//! Oracle self-validation, run before any check is allowed to judge fast_qr.
//! A failure here is INCONCLUSIVE (exit 2), never a VIOLATION: it means *my* model is wrong.

use crate::pool;
use crate::refenc;
use oracle::decode::{self, Matrix};
use oracle::layout::{region_map, Region};
use oracle::rng::Rng;
use oracle::tables::{self, Caps};
use oracle::{bch, gf, segment};
use std::time::Duration;

pub struct SelfReport {
    pub symbols: u64,
    pub cells: u64,
    pub details: Vec<String>,
}

fn payload(mode: usize, len: usize, rng: &mut Rng) -> Vec<u8> {
    (0..len)
        .map(|_| match mode {
            0 => b'0' + rng.below(10) as u8,
            1 => tables::alnum_char(rng.below(45)),
            _ => rng.byte(),
        })
        .collect()
}

fn check_symbol(version: usize, level: usize, mode: usize, mask: usize, input: &[u8]) -> Result<(), String> {
    let ctx = format!("v{version} {} {} mask{mask} len{}", tables::LEVEL_NAMES[level], tables::MODE_NAMES[mode], input.len());
    // second implementation's view
    let ref_data = refenc::data_codewords(mode, version, level, input).map_err(|e| format!("{ctx}: qrcode refused: {e}"))?;
    let mine = segment::data_codewords(mode, version, level, input).map_err(|e| format!("{ctx}: oracle encoder refused: {e}"))?;
    if ref_data != mine {
        return Err(format!("{ctx}: oracle data codewords differ from qrcode's"));
    }
    let ref_sym = refenc::symbol_from_data(version, level, mask, &ref_data).map_err(|e| format!("{ctx}: {e}"))?;
    let my_sym = decode::build_symbol(version, level, mask, &mine);
    if ref_sym != my_sym {
        let n = ref_sym.size;
        let first = (0..n * n).find(|&i| ref_sym.dark[i] != my_sym.dark[i]).unwrap();
        return Err(format!("{ctx}: oracle-built symbol differs from qrcode's at ({},{})", first / n, first % n));
    }
    // decode the *other* implementation's symbol with my reader
    let dec = decode::decode(&ref_sym).map_err(|e| format!("{ctx}: oracle decoder failed on qrcode symbol: {e}"))?;
    if dec.readout.version != version || dec.readout.level != level || dec.readout.mask != mask {
        return Err(format!("{ctx}: oracle decoder read wrong parameters"));
    }
    if dec.readout.format_copy1 != bch::format_word(level, mask) || dec.readout.format_copy2 != bch::format_word(level, mask) {
        return Err(format!("{ctx}: format word mismatch"));
    }
    if version >= 7 {
        let w = bch::version_word(version);
        if dec.readout.version_words != Some((w, w)) {
            return Err(format!("{ctx}: version word mismatch"));
        }
    }
    if dec.corrected != 0 || dec.readout.remainder.iter().any(|&b| b) {
        return Err(format!("{ctx}: qrcode symbol has non-zero syndromes/remainder under the oracle layout"));
    }
    if dec.readout.data_codewords() != mine {
        return Err(format!("{ctx}: read-out data codewords differ"));
    }
    if dec.parsed.segments.len() != 1 || dec.parsed.segments[0].mode != mode || dec.parsed.segments[0].bytes != input {
        return Err(format!("{ctx}: oracle decoder did not return the payload"));
    }
    // function modules
    let map = region_map(version);
    let n = map.size;
    for i in 0..n * n {
        if let Some(v) = map.fixed[i] {
            if ref_sym.dark[i] != v {
                return Err(format!("{ctx}: function module ({},{}) differs from region map", i / n, i % n));
            }
        }
    }
    Ok(())
}

fn matrix_flip(m: &Matrix, r: usize, c: usize) -> Matrix {
    let mut x = m.clone();
    let v = x.get(r, c);
    x.set(r, c, !v);
    x
}

/// `full`: all 8 masks in every (version, level, mode) cell (3840 symbols); otherwise the mask
/// rotates over the cells (480 symbols, every (version, mask) pair still occurs).
pub fn run(full: bool, seed: u64) -> Result<SelfReport, String> {
    let mut details = Vec::new();

    // (1) ISO Annex I worked example
    let d = segment::data_codewords(tables::NUMERIC, 1, tables::M, b"01234567")?;
    let exp_d = [0x10, 0x20, 0x0C, 0x56, 0x61, 0x80, 0xEC, 0x11, 0xEC, 0x11, 0xEC, 0x11, 0xEC, 0x11, 0xEC, 0x11];
    if d != exp_d {
        return Err("Annex I data codewords".into());
    }
    if gf::rs_remainder(&d, 10) != [0xA5, 0x24, 0xD4, 0xC1, 0xED, 0x36, 0xC7, 0x87, 0x2C, 0x55] {
        return Err("Annex I EC codewords".into());
    }
    if bch::format_word(tables::M, 2) != 0b101111001111100 || bch::format_word(tables::M, 5) != 0b100000011001110 {
        return Err("format word examples".into());
    }
    if bch::version_word(7) != 0b000111110010010100 {
        return Err("version word example".into());
    }
    details.push("ISO Annex I/C/D worked examples reproduced".into());

    // (3) RS decoder on all 13 degrees
    let mut rng = Rng::new(seed ^ 0x5e1f);
    let degrees: std::collections::BTreeSet<usize> =
        (0..4).flat_map(|l| (0..40).map(move |v| tables::ECC_PER_BLOCK[l][v] as usize)).collect();
    if degrees.len() != 13 {
        return Err(format!("expected 13 generator degrees, table has {}", degrees.len()));
    }
    for &n in &degrees {
        let data: Vec<u8> = (0..60).map(|_| rng.byte()).collect();
        let mut block = data.clone();
        block.extend(gf::rs_remainder(&data, n));
        let orig = block.clone();
        let mut pos: Vec<usize> = (0..block.len()).collect();
        rng.shuffle(&mut pos);
        for &p in &pos[..n / 2] {
            block[p] ^= 1 + rng.below(255) as u8;
        }
        match gf::rs_decode(&block, n) {
            Some((b, k)) if b == orig && k == n / 2 => {}
            _ => return Err(format!("RS decoder failed at degree {n}")),
        }
        // one more error than correctable must not be "corrected" into the original silently
    }
    details.push("RS decoder corrects floor(ec/2) errors at all 13 degrees".into());

    // (4) capacities and functional map vs qrcode
    let caps = Caps::new();
    for v in 1..=40 {
        for l in 0..4 {
            if 8 * tables::layout(v, l).data_codewords != refenc::max_bits(v, l) {
                return Err(format!("data capacity of v{v} {} differs from qrcode", tables::LEVEL_NAMES[l]));
            }
        }
        let map = region_map(v);
        let fmap = refenc::functional_map(v);
        for r in 0..map.size {
            for c in 0..map.size {
                if (map.at(r, c) != Region::Data) != fmap[r * map.size + c] {
                    return Err(format!("region map v{v} ({r},{c}) disagrees with qrcode's functional patterns"));
                }
            }
        }
    }
    details.push("160 data capacities and 40 function-module maps agree with qrcode".into());

    // (2) whole symbols
    let mut jobs = Vec::new();
    let mut k = 0usize;
    for v in 1..=40usize {
        for l in 0..4usize {
            for mode in 0..3usize {
                let masks: Vec<usize> = if full { (0..8).collect() } else { vec![(k + v) % 8] };
                k += 1;
                for mask in masks {
                    jobs.push((v, l, mode, mask));
                }
            }
        }
    }
    let caps_ref = &caps;
    let st = pool::run(&jobs, Duration::from_secs(300), |st, &(v, l, mode, mask), i| {
        let mut rng = Rng::new(oracle::rng::mix(seed, i as u64));
        let cap = caps_ref.cap(v, l, mode);
        // capacity-filling, cap-1 and a short one
        for len in [cap, cap.saturating_sub(1), rng.below(cap + 1), 0] {
            let p = payload(mode, len, &mut rng);
            st.eval();
            if let Err(e) = check_symbol(v, l, mode, mask, &p) {
                st.inconclusive(e);
                return;
            }
        }
        // cap+1 must be refused by both
        let p = payload(mode, cap + 1, &mut rng);
        if segment::data_codewords(mode, v, l, &p).is_ok() || refenc::data_codewords(mode, v, l, &p).is_ok() {
            st.inconclusive(format!("cap+1 accepted at v{v} level {l} mode {mode}"));
        }
        // a single flipped data module must be noticed by the oracle reader (non-zero syndrome)
        if i % 16 == 0 {
            let p = payload(mode, cap / 2, &mut rng);
            let m = refenc::symbol(mode, v, l, mask, &p).unwrap();
            let map = region_map(v);
            let (r, c) = map.zigzag[rng.below(8 * tables::total_codewords(v))];
            let bad = matrix_flip(&m, r, c);
            let ro = decode::read(&bad).unwrap();
            let any = ro.blocks.iter().any(|b| gf::syndromes(&b.whole(), ro.layout.ec_per_block).iter().any(|&s| s != 0));
            if !any {
                st.inconclusive(format!("flipped module ({r},{c}) not detected v{v}"));
            }
        }
    });
    if !st.inconclusive.is_empty() {
        return Err(st.inconclusive.join("; "));
    }
    details.push(format!("{} qrcode-built symbols in {} (version,level,mode,mask) cells decoded and compared", st.evaluations, jobs.len()));
    Ok(SelfReport { symbols: st.evaluations, cells: jobs.len() as u64, details })
}
