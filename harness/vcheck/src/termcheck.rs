//! Terminal rendering oracle (needs no renderer feature of the crate: `to_str()` is part of the plain library).

use fast_qr::QRCode;

pub type V = (String, String);

fn bad<T>(kind: &str, detail: String) -> Result<T, V> {
    Err((kind.to_string(), detail))
}

/// C16's statement, checked on one terminal string.
pub fn check_terminal(text: &str, qr: &QRCode) -> Result<u64, V> {
    let n = qr.size;
    let lines: Vec<&str> = text.split('\n').collect();
    let want_lines = (n + 1) / 2 + 1;
    if lines.len() != want_lines {
        return bad("line-count", format!("{} lines, expected (size+1)/2+1 = {want_lines} for size {n}", lines.len()));
    }
    // half-rows: index 0 is the filler above the border, 1 the top border, 2..n+2 modules, n+2 bottom border
    let mut grid: Vec<Vec<bool>> = Vec::with_capacity(2 * want_lines); // true = dark
    for (li, l) in lines.iter().enumerate() {
        let chars: Vec<char> = l.chars().collect();
        if chars.len() != n + 2 {
            return bad("line-width", format!("line {li} has {} characters, expected size+2 = {}", chars.len(), n + 2));
        }
        let mut top = Vec::with_capacity(n + 2);
        let mut bot = Vec::with_capacity(n + 2);
        for (ci, ch) in chars.iter().enumerate() {
            let (t, b) = match ch {
                ' ' => (true, true),
                '\u{2588}' => (false, false),
                '\u{2580}' => (false, true),
                '\u{2584}' => (true, false),
                other => return bad("alphabet", format!("character {other:?} (U+{:04X}) at line {li} column {ci}", *other as u32)),
            };
            top.push(t);
            bot.push(b);
        }
        grid.push(top);
        grid.push(bot);
    }
    let mut compared = 0u64;
    for hr in 1..n + 3 {
        for c in 0..n + 2 {
            let want_dark = if hr == 1 || hr == n + 2 || c == 0 || c == n + 1 { false } else { qr.data[(hr - 2) * n + (c - 1)].value() };
            if grid[hr][c] != want_dark {
                let what = if hr == 1 || hr == n + 2 || c == 0 || c == n + 1 { "border cell".to_string() } else { format!("module (row {}, column {})", hr - 2, c - 1) };
                return bad("cell-mismatch", format!("{what} renders as {}, expected {}", if grid[hr][c] { "dark" } else { "light" }, if want_dark { "dark" } else { "light" }));
            }
            compared += 1;
        }
    }
    Ok(compared)
}
