//! Check framework: context, report, known findings, verdict printing, replay files.

use crate::job::Job;
use crate::stats::{evidence_json, EvidenceMeta, Stats};
use oracle::tables::Caps;
use serde_json::{json, Value};
use std::path::PathBuf;
use std::time::{Duration, Instant};

#[derive(Clone, Copy, PartialEq, Eq, Debug)]
pub enum Tier {
    Quick,
    Thorough,
}

impl Tier {
    pub fn name(self) -> &'static str {
        match self {
            Tier::Quick => "quick",
            Tier::Thorough => "thorough",
        }
    }
    pub fn pick<T>(self, quick: T, thorough: T) -> T {
        match self {
            Tier::Quick => quick,
            Tier::Thorough => thorough,
        }
    }
}

pub struct Ctx {
    pub tier: Tier,
    pub seed: u64,
    pub caps: Caps,
    pub root: PathBuf,
    pub deadline: Duration,
    pub started: Instant,
}

impl Ctx {
    pub fn new(tier: Tier, seed: u64) -> Self {
        crate::pool::set_order_seed(seed);
        let root = std::env::var_os("VERIF_ROOT").map(PathBuf::from).unwrap_or_else(|| PathBuf::from("/verif"));
        Ctx {
            tier,
            seed,
            caps: Caps::new(),
            root,
            deadline: Duration::from_secs(tier.pick(600, 3600)),
            started: Instant::now(),
        }
    }
    pub fn remaining(&self) -> Duration {
        self.deadline.saturating_sub(self.started.elapsed())
    }
    /// scale factor for thorough workloads (VERIF_SCALE, default 1.0): lets a background run
    /// go deeper without editing code
    pub fn scale(&self, n: usize) -> usize {
        let f: f64 = std::env::var("VERIF_SCALE").ok().and_then(|s| s.parse().ok()).unwrap_or(1.0);
        ((n as f64) * f).round().max(1.0) as usize
    }
}

pub struct Report {
    pub stats: Stats,
    pub level: &'static str,
    pub rule: String,
    pub exhaustive: Option<bool>,
    pub assumptions: Vec<String>,
    pub expected_sets: Vec<(&'static str, usize)>,
    pub extra: Vec<(String, Value)>,
    /// the run is INCONCLUSIVE if fewer executions than this were observed
    pub min_evaluations: u64,
    /// reach-sets that must be complete for the run to count (name, expected size)
    pub required_sets: Vec<(&'static str, usize)>,
}

impl Report {
    pub fn new(stats: Stats, rule: &str) -> Self {
        Report {
            stats,
            level: "exploration",
            rule: rule.to_string(),
            exhaustive: None,
            assumptions: vec![],
            expected_sets: vec![],
            extra: vec![],
            min_evaluations: 1,
            required_sets: vec![],
        }
    }
}

/// Record a disagreement between oracle and observation; `second_opinion` = the independent
/// qrcode crate produced the identical matrix (then it is the oracle that is suspect).
pub fn flag(st: &mut Stats, prop: &str, v: (String, String), job: &Job, second_opinion_agrees: bool) {
    let detail = format!("{} [{}]", v.1, job.config().describe());
    if second_opinion_agrees {
        st.suspect(prop, &v.0, detail, job.to_json());
    } else {
        st.violation(prop, &v.0, detail, job.to_json());
    }
}

#[derive(Clone, Debug)]
pub struct KnownFinding {
    pub open: bool,
    pub property: String,
    pub id: String,
    pub line: String,
}

pub fn load_known(root: &std::path::Path) -> Vec<KnownFinding> {
    let text = std::fs::read_to_string(root.join("KNOWN_FINDINGS.txt")).unwrap_or_default();
    let mut out = Vec::new();
    for line in text.lines() {
        let line = line.trim();
        if line.is_empty() || line.starts_with('#') {
            continue;
        }
        let open = line.starts_with("open:");
        if !open && !line.starts_with("fixed:") {
            continue;
        }
        let field = |k: &str| {
            line.split_whitespace().find_map(|w| w.strip_prefix(&format!("{k}=")).map(|s| s.to_string())).unwrap_or_default()
        };
        out.push(KnownFinding { open, property: field("property"), id: field("id"), line: line.to_string() });
    }
    out
}

/// Finish a check: write evidence, replay files, print verdict lines, return the exit code.
pub fn finish(ctx: &Ctx, prop: &str, mut rep: Report, selfcheck: &[String]) -> i32 {
    let wall = ctx.started.elapsed().as_secs_f64();
    let known = load_known(&ctx.root);

    // known-finding instances that are not listed as open in the committed file are violations
    let mut known_lines = Vec::new();
    let matched: Vec<(String, (u64, String))> = rep.stats.known.iter().map(|(k, v)| (k.clone(), v.clone())).collect();
    for (id, (n, what)) in matched {
        if known.iter().any(|k| k.open && k.id == id && k.property == prop) {
            known_lines.push(format!("KNOWN-FINDING: property={prop} id={id} {what} ({n} instances this run)"));
        } else {
            rep.stats.violation(
                prop,
                "unlisted-finding",
                format!("{n} executions match finding signature {id} ({what}) but KNOWN_FINDINGS.txt has no open entry for it"),
                json!({"fam": "unlisted-finding", "id": id}),
            );
            rep.stats.known.remove(&id);
        }
    }

    // completeness of the observation (the thinned environment child is not held to it: its parent is)
    let thinned = std::env::var("VCHECK_STAGE_CHILD").map(|v| v == "environment").unwrap_or(false);
    if thinned {
        rep.min_evaluations = 1;
        rep.required_sets.clear();
    }
    if rep.stats.evaluations < rep.min_evaluations {
        rep.stats.inconclusive(format!("only {} executions observed, {} required", rep.stats.evaluations, rep.min_evaluations));
    }
    for (name, want) in &rep.required_sets {
        let got = rep.stats.set_len(name);
        if got < *want {
            rep.stats.inconclusive(format!("coverage set '{name}' reached {got} of {want}"));
        }
    }
    if rep.stats.distinct.len() < 2 {
        rep.stats.inconclusive("fewer than 2 distinct non-trivial cases".into());
    }
    if !rep.stats.suspects.is_empty() && rep.stats.violations.is_empty() {
        rep.stats.inconclusive(format!(
            "oracle-suspect: {} disagreement(s) where the independent qrcode crate produced the identical matrix as fast_qr (first: {} {})",
            rep.stats.suspects.len(),
            rep.stats.suspects[0].kind,
            rep.stats.suspects[0].detail
        ));
    }

    let mut extra = rep.extra.clone();
    extra.push(("oracle_selfcheck".into(), json!(selfcheck)));
    let meta = EvidenceMeta {
        property: prop,
        tier: ctx.tier.name(),
        seed: ctx.seed,
        level: rep.level,
        rule: rep.rule.clone(),
        exhaustive: rep.exhaustive,
        assumptions: rep.assumptions.clone(),
        wall_s: wall,
        expected_sets: rep.expected_sets.clone(),
        extra,
    };
    let ev = evidence_json(&meta, &rep.stats);
    // VERIF_EVIDENCE_DIR / VERIF_REPLAY_DIR: only the mutation self-test sets these, so that runs
    // against scratch copies never touch the evidence of the real tree
    let evdir = std::env::var_os("VERIF_EVIDENCE_DIR").map(PathBuf::from).unwrap_or_else(|| ctx.root.join("evidence"));
    let _ = std::fs::create_dir_all(&evdir);
    let evpath = evdir.join(format!("{prop}.json"));
    if let Err(e) = std::fs::write(&evpath, serde_json::to_string_pretty(&ev).unwrap() + "\n") {
        println!("INCONCLUSIVE cannot write evidence file {}: {e}", evpath.display());
        return 2;
    }

    for l in &known_lines {
        println!("{l}");
    }

    let st = &rep.stats;
    let summary = format!(
        "property={prop} tier={} seed={} executions={} distinct={} wall={:.1}s observed={{{}}} reached={{{}}}",
        ctx.tier.name(),
        ctx.seed,
        st.evaluations,
        st.distinct.len(),
        wall,
        st.counters.iter().map(|(k, v)| format!("{k}:{v}")).collect::<Vec<_>>().join(" "),
        st.sets.iter().map(|(k, v)| format!("{k}:{}", v.len())).collect::<Vec<_>>().join(" "),
    );

    if !st.violations.is_empty() {
        let dir = std::env::var_os("VERIF_REPLAY_DIR").map(PathBuf::from).unwrap_or_else(|| ctx.root.join("replays")).join(prop);
        let _ = std::fs::create_dir_all(&dir);
        let mut seen = std::collections::BTreeSet::new();
        let mut printed = 0;
        for v in &st.violations {
            // one replay per (kind, job) ; print at most 10 lines
            let mut body = json!({
                "property": v.property, "kind": v.kind, "detail": v.detail, "job": v.job,
                "seed": ctx.seed, "tier": ctx.tier.name(),
            });
            if crate::relstage::is_child() {
                body["profile"] = json!(if std::env::var("VCHECK_STAGE_FLAVOUR").map(|v| v == "plain").unwrap_or(false) { "release-plain" } else { "release" });
            }
            let text = serde_json::to_string_pretty(&body).unwrap();
            let h = oracle::rng::fnv(text.as_bytes());
            if !seen.insert(h) {
                continue;
            }
            let path = dir.join(format!("{}-{:016x}.json", v.kind.replace(|c: char| !(c.is_ascii_alphanumeric() || c == '-' || c == '_' || c == '.'), "_"), h));
            let _ = std::fs::write(&path, text + "\n");
            if printed < 10 {
                println!("VIOLATION property={} replay={} kind={} {}", v.property, path.display(), v.kind, v.detail);
                printed += 1;
            }
        }
        println!("SUMMARY violated {summary} violations={}", st.counter("violations_total"));
        return 1;
    }
    if !st.inconclusive.is_empty() {
        for w in &st.inconclusive {
            println!("INCONCLUSIVE property={prop} {w}");
        }
        println!("SUMMARY inconclusive {summary}");
        return 2;
    }
    println!("SUMMARY held {summary}");
    0
}
