//! What the monitors observed: counters, distinct-case sets, samples, violations.
//! One `Stats` per worker thread; merged after the workload (the monitor's own state is
//! never shared between threads).

use serde_json::{json, Value};
use std::collections::{BTreeMap, BTreeSet, HashSet};

#[derive(Clone, Debug)]
pub struct Violation {
    pub property: String,
    /// short machine-readable kind (e.g. "decode-mismatch", "no-symbol")
    pub kind: String,
    pub detail: String,
    /// everything needed to re-run the failing execution: the job descriptor
    pub job: Value,
}

#[derive(Clone, Debug)]
pub struct KnownHit {
    pub id: String,
    pub what: String,
}

#[derive(Default)]
pub struct Stats {
    pub evaluations: u64,
    pub distinct: HashSet<u64>,
    pub counters: BTreeMap<String, u64>,
    pub sets: BTreeMap<String, BTreeSet<u64>>,
    pub samples: Vec<Value>,
    pub violations: Vec<Violation>,
    pub suspects: Vec<Violation>,
    pub known: BTreeMap<String, (u64, String)>,
    pub inconclusive: Vec<String>,
    pub notes: Vec<String>,
    sample_cap: usize,
}

impl Stats {
    pub fn new() -> Self {
        Stats { sample_cap: 3, ..Default::default() }
    }
    pub fn eval(&mut self) {
        self.evaluations += 1;
    }
    pub fn distinct(&mut self, key: u64) {
        self.distinct.insert(key);
    }
    pub fn count(&mut self, name: &str, by: u64) {
        *self.counters.entry(name.to_string()).or_insert(0) += by;
    }
    pub fn max(&mut self, name: &str, v: u64) {
        let e = self.counters.entry(name.to_string()).or_insert(0);
        if v > *e {
            *e = v;
        }
    }
    pub fn reach(&mut self, set: &str, item: u64) {
        self.sets.entry(set.to_string()).or_default().insert(item);
    }
    /// keep a sample if there is room, chosen sparsely so that samples come from all over
    /// the workload (every `stride`-th evaluation).
    pub fn sample(&mut self, stride: u64, make: impl FnOnce() -> Value) {
        if self.samples.len() < self.sample_cap && (self.samples.is_empty() || self.evaluations % stride.max(1) == 0) {
            self.samples.push(make());
        }
    }
    pub fn violation(&mut self, property: &str, kind: &str, detail: String, job: Value) {
        if self.violations.len() < 200 {
            self.violations.push(Violation { property: property.into(), kind: kind.into(), detail, job });
        }
        self.count("violations_total", 1);
    }
    pub fn suspect(&mut self, property: &str, kind: &str, detail: String, job: Value) {
        if self.suspects.len() < 50 {
            self.suspects.push(Violation { property: property.into(), kind: kind.into(), detail, job });
        }
    }
    pub fn known(&mut self, id: &str, what: String) {
        let e = self.known.entry(id.to_string()).or_insert((0, what));
        e.0 += 1;
    }
    pub fn inconclusive(&mut self, why: String) {
        if self.inconclusive.len() < 20 {
            self.inconclusive.push(why);
        }
    }

    pub fn merge(&mut self, other: Stats) {
        self.evaluations += other.evaluations;
        self.distinct.extend(other.distinct);
        for (k, v) in other.counters {
            if k.starts_with("max_") {
                let e = self.counters.entry(k).or_insert(0);
                if v > *e {
                    *e = v;
                }
            } else {
                *self.counters.entry(k).or_insert(0) += v;
            }
        }
        for (k, v) in other.sets {
            self.sets.entry(k).or_default().extend(v);
        }
        for s in other.samples {
            if self.samples.len() < 10 {
                self.samples.push(s);
            }
        }
        self.violations.extend(other.violations);
        self.suspects.extend(other.suspects);
        for (k, (n, w)) in other.known {
            let e = self.known.entry(k).or_insert((0, w));
            e.0 += n;
        }
        self.inconclusive.extend(other.inconclusive);
        self.notes.extend(other.notes);
    }

    pub fn set_len(&self, name: &str) -> usize {
        self.sets.get(name).map_or(0, |s| s.len())
    }
    pub fn counter(&self, name: &str) -> u64 {
        self.counters.get(name).copied().unwrap_or(0)
    }
}

pub struct EvidenceMeta<'a> {
    pub property: &'a str,
    pub tier: &'a str,
    pub seed: u64,
    pub level: &'a str,
    pub rule: String,
    pub exhaustive: Option<bool>,
    pub assumptions: Vec<String>,
    pub wall_s: f64,
    /// expected sizes of reach-sets, reported as "reached/expected"
    pub expected_sets: Vec<(&'a str, usize)>,
    pub extra: Vec<(String, Value)>,
}

pub fn evidence_json(meta: &EvidenceMeta, st: &Stats) -> Value {
    let mut cov = serde_json::Map::new();
    cov.insert("evaluations".into(), json!(st.evaluations));
    cov.insert("distinct_nontrivial".into(), json!(st.distinct.len()));
    cov.insert("rule".into(), json!(meta.rule));
    cov.insert("samples".into(), Value::Array(st.samples.clone()));
    if let Some(e) = meta.exhaustive {
        cov.insert("exhaustive".into(), json!(e));
    }
    let mut counters = serde_json::Map::new();
    for (k, v) in &st.counters {
        counters.insert(k.clone(), json!(v));
    }
    cov.insert("observed".into(), Value::Object(counters));
    let mut reached = serde_json::Map::new();
    for (k, v) in &st.sets {
        let exp = meta.expected_sets.iter().find(|(n, _)| n == k).map(|(_, e)| *e);
        reached.insert(
            k.clone(),
            match exp {
                Some(e) => json!(format!("{}/{}", v.len(), e)),
                None => json!(v.len()),
            },
        );
    }
    cov.insert("reached".into(), Value::Object(reached));
    if !st.known.is_empty() {
        let mut k = serde_json::Map::new();
        for (id, (n, what)) in &st.known {
            k.insert(id.clone(), json!({"instances": n, "what": what}));
        }
        cov.insert("known_findings_matched".into(), Value::Object(k));
    }
    if !st.notes.is_empty() {
        let mut notes = st.notes.clone();
        notes.sort();
        notes.dedup();
        cov.insert("notes".into(), json!(notes));
    }
    if !st.inconclusive.is_empty() {
        cov.insert("inconclusive".into(), json!(st.inconclusive));
    }
    if !st.suspects.is_empty() {
        cov.insert(
            "oracle_suspect".into(),
            json!(st.suspects.iter().map(|v| json!({"kind": v.kind, "detail": v.detail, "job": v.job})).collect::<Vec<_>>()),
        );
    }
    for (k, v) in &meta.extra {
        cov.insert(k.clone(), v.clone());
    }
    json!({
        "property_id": meta.property,
        "tier": meta.tier,
        "seed": meta.seed,
        "level": meta.level,
        "coverage": Value::Object(cov),
        "assumptions": meta.assumptions,
        "wall_s": (meta.wall_s * 1000.0).round() / 1000.0,
        "violations": st.counter("violations_total"),
    })
}
