//! A legitimate but unfriendly global allocator, switched on for a whole process by the environment variable
//! `VCHECK_HOSTILE_ALLOC` (set by `relstage::hostile_environment`, i.e. in the environment child of every check and in
//! every second cold-start process of C14). It is the system allocator, except that
//!
//! * blocks requested with alignment 1 (`Vec<u8>`, `String`: every payload, every rendered document) are handed out at
//!   an address that is NOT a multiple of 2, 4 or 8 most of the time (offset 1..7 from an 8-aligned block). An allocator
//!   owes the caller the alignment that was asked for and nothing more; bump, arena and embedded allocators really
//!   behave like this. Code that scans bytes a machine word at a time and gets the head of an unaligned buffer wrong
//!   shows here and nowhere else;
//! * every 61st allocation or release yields the processor (`sched_yield`): threads are preempted at other places than
//!   usual, which widens the windows of check-then-act sequences between threads.
//!
//! The skewing is left out (`VCHECK_HOSTILE_ALLOC=1` instead of `=2`) in processes that rasterise: the rasteriser linked
//! by the `image` feature (tiny-skia, through bytemuck) casts its `Vec<u8>` pixel buffer to a 4-byte type and panics on
//! a buffer that is not 4-aligned - an assumption of that dependency about mainstream allocators, not a statement
//! about fast_qr. Those processes still get the yields.
//!
//! The switch is read once, at the first allocation (before `main`), straight from `environ`: no libc call that could
//! allocate or be interposed. Whether a block was skewed is a function of its layout and of that fixed switch, so
//! `dealloc` can undo it.
use std::alloc::{GlobalAlloc, Layout, System};
use std::os::raw::{c_char, c_int};
use std::sync::atomic::{AtomicU8, AtomicUsize, Ordering};

extern "C" {
    static environ: *const *const c_char;
    fn sched_yield() -> c_int;
}

pub struct Hostile;

static MODE: AtomicU8 = AtomicU8::new(0); // 0 undecided, 1 plain, 2 yields + skewed blocks, 3 yields only
static TICK: AtomicUsize = AtomicUsize::new(0);

fn decide() -> u8 {
    const KEY: &[u8] = b"VCHECK_HOSTILE_ALLOC=";
    let mut on = false;
    let mut skew = false;
    unsafe {
        let mut p = environ;
        if !p.is_null() {
            while !(*p).is_null() {
                let e = *p as *const u8;
                let mut i = 0;
                while i < KEY.len() && *e.add(i) == KEY[i] {
                    i += 1;
                }
                if i == KEY.len() {
                    on = true;
                    skew = *e.add(i) == b'2';
                    break;
                }
                p = p.add(1);
            }
        }
    }
    let m = if !on { 1 } else if skew { 2 } else { 3 };
    MODE.store(m, Ordering::Relaxed);
    m
}

#[inline]
fn mode() -> u8 {
    match MODE.load(Ordering::Relaxed) {
        0 => decide(),
        m => m,
    }
}

#[inline]
fn skewed(l: &Layout) -> bool {
    l.align() == 1 && l.size() > 0
}

#[inline]
fn tick() -> usize {
    let t = TICK.fetch_add(1, Ordering::Relaxed);
    if t % 61 == 0 {
        unsafe {
            sched_yield();
        }
    }
    t
}

unsafe impl GlobalAlloc for Hostile {
    unsafe fn alloc(&self, l: Layout) -> *mut u8 {
        let m = mode();
        if m == 1 {
            return System.alloc(l);
        }
        let t = tick();
        if m != 2 || !skewed(&l) {
            return System.alloc(l);
        }
        let off = 1 + t % 7;
        let base = System.alloc(Layout::from_size_align_unchecked(l.size() + 8, 8));
        if base.is_null() {
            return base;
        }
        *base.add(off - 1) = off as u8;
        base.add(off)
    }
    unsafe fn dealloc(&self, p: *mut u8, l: Layout) {
        let m = mode();
        if m == 1 {
            return System.dealloc(p, l);
        }
        tick();
        if m != 2 || !skewed(&l) {
            return System.dealloc(p, l);
        }
        let off = *p.sub(1) as usize;
        System.dealloc(p.sub(off), Layout::from_size_align_unchecked(l.size() + 8, 8));
    }
    unsafe fn realloc(&self, p: *mut u8, l: Layout, new_size: usize) -> *mut u8 {
        if mode() != 2 || !skewed(&l) {
            return System.realloc(p, l, new_size);
        }
        // a skewed block moves: new block, copy, release (what the default implementation does)
        let nl = Layout::from_size_align_unchecked(new_size, l.align());
        let q = self.alloc(nl);
        if !q.is_null() {
            std::ptr::copy_nonoverlapping(p, q, l.size().min(new_size));
            self.dealloc(p, l);
        }
        q
    }
}

pub fn active() -> bool {
    mode() != 1
}
