//! Symbol-level oracles shared by several properties. Each takes what was observed at the API
//! boundary (a QRCode / its module values) and returns Err((kind, detail)) on disagreement
//! with the ISO reference model.

use crate::adapter::{self, label_name, Config};
use crate::refenc;
use fast_qr::{ModuleType, QRCode};
use oracle::decode::{self, Matrix, Readout};
use oracle::layout::{self, region_map, Region};
use oracle::tables;
use oracle::{bch, gf, segment};

pub type Verdict = Result<(), (String, String)>;

fn bad(kind: &str, detail: String) -> Verdict {
    Err((kind.to_string(), detail))
}

/// Resolved parameters the oracle expects for a config (mode and level defaults applied,
/// smallest version computed); None if the oracle says no symbol exists for it.
#[derive(Clone, Debug)]
pub struct Expect {
    pub mode: usize,
    pub level: usize,
    pub version: usize,
    pub vmin: usize,
}

pub fn expect(cfg: &Config, caps: &tables::Caps) -> Result<Expect, &'static str> {
    let mode = cfg.mode.unwrap_or_else(|| tables::classify(&cfg.input));
    if !tables::mode_accepts(mode, &cfg.input) {
        return Err("outside-alphabet");
    }
    let level = cfg.level.unwrap_or(tables::Q);
    let vmin = match caps.vmin(level, mode, cfg.input.len()) {
        Some(v) => v,
        None => return Err("too-big"),
    };
    let version = match cfg.version {
        Some(f) if f >= vmin => f,
        Some(_) => return Err("version-too-small"),
        None => vmin,
    };
    Ok(Expect { mode, level, version, vmin })
}

/// C01: the reference decode of the module values returns exactly one segment equal to the input.
pub fn check_roundtrip(m: &Matrix, input: &[u8]) -> Result<decode::Decoded, (String, String)> {
    let dec = match decode::decode(m) {
        Ok(d) => d,
        Err(e) => return Err(("decode-failed".into(), e)),
    };
    if dec.parsed.segments.len() != 1 {
        return Err((
            "segment-count".into(),
            format!("reference decode yields {} segments, expected exactly 1", dec.parsed.segments.len()),
        ));
    }
    let got = &dec.parsed.segments[0].bytes;
    if got != input {
        let first = got.iter().zip(input.iter()).position(|(a, b)| a != b).unwrap_or(got.len().min(input.len()));
        return Err((
            "decode-mismatch".into(),
            format!(
                "decoded {} bytes, input {} bytes, first difference at byte {} (decoded {} vs input {})",
                got.len(),
                input.len(),
                first,
                adapter::short_hex(&got[first.min(got.len())..]),
                adapter::short_hex(&input[first.min(input.len())..])
            ),
        ));
    }
    Ok(dec)
}

/// C02: codeword count, zero remainder bits, all syndromes zero in the oracle's Table 9 layout.
pub fn check_blocks(ro: &Readout) -> Verdict {
    if ro.codewords.len() != tables::total_codewords(ro.version) {
        return bad("codeword-count", format!("{} codewords read", ro.codewords.len()));
    }
    if ro.remainder.len() != tables::remainder_bits(ro.version) {
        return bad("remainder-count", format!("{} remainder bits", ro.remainder.len()));
    }
    if ro.remainder.iter().any(|&b| b) {
        return bad("remainder-nonzero", format!("remainder bits after unmasking: {:?}", ro.remainder));
    }
    for (i, b) in ro.blocks.iter().enumerate() {
        let s = gf::syndromes(&b.whole(), ro.layout.ec_per_block);
        if let Some(k) = s.iter().position(|&x| x != 0) {
            return bad(
                "syndrome-nonzero",
                format!(
                    "block {i} of {} (data {} + ec {}): S_{k} = {:#04x}",
                    ro.layout.num_blocks,
                    b.data.len(),
                    b.ec.len(),
                    s[k]
                ),
            );
        }
    }
    Ok(())
}

/// C03: size and every fixed function module.
pub fn check_function_patterns(qr: &QRCode, version: usize) -> Result<u64, (String, String)> {
    let map = region_map(version);
    let n = map.size;
    if qr.size != n {
        return Err(("size".into(), format!("size {} for version {version}, expected {n}", qr.size)));
    }
    let mut compared = 0;
    for r in 0..n {
        for c in 0..n {
            if let Some(v) = map.fixed[r * n + c] {
                compared += 1;
                let got = qr.data[r * n + c].value();
                if got != v {
                    return Err((
                        "function-module".into(),
                        format!(
                            "{} module at (row {r}, col {c}) is {}, ISO says {}",
                            map.at(r, c).name(),
                            if got { "dark" } else { "light" },
                            if v { "dark" } else { "light" }
                        ),
                    ));
                }
            }
        }
    }
    Ok(compared)
}

/// C03: nothing outside size*size in the backing array is dark or typed.
pub fn check_tail(qr: &QRCode) -> Result<u64, (String, String)> {
    let n = qr.size;
    let default = fast_qr::Module::data(fast_qr::Module::LIGHT).0;
    for (i, m) in qr.data[n * n..].iter().enumerate() {
        if m.0 != default {
            return Err((
                "tail-touched".into(),
                format!("backing array element {} (beyond size^2 = {}) is {:#04x}, default is {:#04x}", n * n + i, n * n, m.0, default),
            ));
        }
    }
    Ok((qr.data.len() - n * n) as u64)
}

/// C04: both format copies, both version copies, exactly.
pub fn check_format_version(m: &Matrix, version: usize, level: usize, mask: usize) -> Verdict {
    let (f1, f2) = decode::read_format_copies(m);
    let want = bch::format_word(level, mask);
    if f1 != want {
        return bad("format-copy1", format!("copy 1 reads {f1:015b}, BCH(15,5)({},{mask})^mask = {want:015b}", tables::LEVEL_NAMES[level]));
    }
    if f2 != want {
        return bad("format-copy2", format!("copy 2 reads {f2:015b}, expected {want:015b}"));
    }
    if version >= 7 {
        let (v1, v2) = decode::read_version_copies(m);
        let w = bch::version_word(version);
        if v1 != w {
            return bad("version-copy1", format!("top-right version block reads {v1:018b}, BCH(18,6)({version}) = {w:018b}"));
        }
        if v2 != w {
            return bad("version-copy2", format!("bottom-left version block reads {v2:018b}, expected {w:018b}"));
        }
    }
    Ok(())
}

/// C04: the fields reported on the QRCode.
pub fn check_fields(qr: &QRCode, cfg: &Config, exp: &Expect, physical_level: usize, physical_mask: usize, physical_mode: usize) -> Verdict {
    let v = qr.version.map(adapter::version_no);
    if v != Some(exp.version) {
        return bad("field-version", format!("reported version {v:?}, expected {}", exp.version));
    }
    if qr.size != 17 + 4 * exp.version {
        return bad("field-size", format!("reported size {}", qr.size));
    }
    let l = qr.ecl.map(adapter::level_no);
    if l != Some(exp.level) {
        return bad("field-level", format!("reported level {l:?}, expected {} (forced {:?})", exp.level, cfg.level));
    }
    if l != Some(physical_level) {
        return bad("field-level-physical", format!("reported level {l:?} but format bits encode {physical_level}"));
    }
    let k = qr.mask.map(adapter::mask_no);
    if k != Some(physical_mask) {
        return bad("field-mask-physical", format!("reported mask {k:?} but format bits encode {physical_mask}"));
    }
    if let Some(f) = cfg.mask {
        if k != Some(f) {
            return bad("field-mask-forced", format!("forced mask {f} but reported {k:?}"));
        }
    }
    let md = qr.mode.map(adapter::mode_no);
    if md != Some(exp.mode) {
        return bad("field-mode", format!("reported mode {md:?}, expected {}", exp.mode));
    }
    if md != Some(physical_mode) {
        return bad("field-mode-physical", format!("reported mode {md:?} but mode indicator says {physical_mode}"));
    }
    Ok(())
}

/// C06: the data codewords are the strict ISO bit stream.
pub fn check_bitstream(ro: &Readout, mode: usize, input: &[u8]) -> Verdict {
    let want = match segment::data_codewords(mode, ro.version, ro.level, input) {
        Ok(w) => w,
        Err(e) => return bad("bitstream-impossible", format!("oracle cannot encode this input at v{} level {}: {e}", ro.version, ro.level)),
    };
    let got = ro.data_codewords();
    if got.len() != want.len() {
        return bad("data-codeword-count", format!("{} data codewords, ISO capacity {}", got.len(), want.len()));
    }
    if let Some(i) = (0..got.len()).find(|&i| got[i] != want[i]) {
        let seg_bits = 4 + tables::cci_bits(ro.version, mode) + tables::payload_bits(mode, input.len());
        let area = if i * 8 + 8 <= 4 {
            "mode indicator"
        } else if i * 8 < 4 + tables::cci_bits(ro.version, mode) {
            "mode indicator / character count"
        } else if i * 8 < seg_bits {
            "segment data"
        } else if i * 8 < seg_bits + 12 {
            "terminator / bit padding"
        } else {
            "pad codewords"
        };
        return bad(
            "bitstream-mismatch",
            format!(
                "data codeword {i} of {} is {:#04x} ({:08b}), ISO 7.4 says {:#04x} ({:08b}); area: {area}; segment ends at bit {seg_bits}",
                got.len(),
                got[i],
                got[i],
                want[i],
                want[i]
            ),
        );
    }
    Ok(())
}

pub fn oracle_region_of(t: ModuleType) -> Region {
    match t {
        ModuleType::Data => Region::Data,
        ModuleType::FinderPattern => Region::Finder,
        ModuleType::Alignment => Region::Alignment,
        ModuleType::Timing => Region::Timing,
        ModuleType::Format => Region::Format,
        ModuleType::Version => Region::Version,
        ModuleType::DarkModule => Region::Dark,
        ModuleType::Empty => Region::Separator,
    }
}

/// C15: labels against the ISO region map.
pub fn check_labels(qr: &QRCode, version: usize) -> Result<u64, (String, String)> {
    let map = region_map(version);
    let n = map.size;
    if qr.size != n {
        return Err(("size".into(), format!("size {} for version {version}", qr.size)));
    }
    let mut data_labels = 0usize;
    for r in 0..n {
        for c in 0..n {
            let raw = qr.data[r * n + c].0;
            if raw >> 1 > 7 {
                return Err(("label-invalid".into(), format!("raw module byte {raw:#04x} at ({r},{c})")));
            }
            let t = qr.data[r * n + c].module_type();
            if t == ModuleType::Data {
                data_labels += 1;
            }
            let got = oracle_region_of(t);
            let want = map.at(r, c);
            let ok = got == want || (map.timing_overlap[r * n + c] && got == Region::Timing);
            if !ok {
                return Err((
                    "label-mismatch".into(),
                    format!("module (row {r}, col {c}) of version {version} is labelled {}, ISO region is {}", label_name(t), want.name()),
                ));
            }
        }
    }
    let want = 8 * tables::total_codewords(version) + tables::remainder_bits(version);
    if data_labels != want {
        return Err(("data-label-count".into(), format!("{data_labels} modules labelled Data, 8*codewords+remainder = {want}")));
    }
    Ok((n * n) as u64)
}

/// The "oracle-suspect" guard: would the independent qrcode crate produce the very same
/// matrix for this configuration? If yes, two encoders agree against my model.
pub fn second_opinion_agrees(m: &Matrix, mode: usize, version: usize, level: usize, mask: usize, input: &[u8]) -> bool {
    match refenc::symbol(mode, version, level, mask, input) {
        Ok(r) => r == *m,
        Err(_) => false,
    }
}

/// Un-mask a matrix over the oracle's data region.
pub fn unmasked(m: &Matrix, version: usize, mask: usize) -> Matrix {
    let map = region_map(version);
    let mut out = m.clone();
    for &(r, c) in &map.zigzag {
        if layout::mask_bit(mask, r, c) {
            let v = out.get(r, c);
            out.set(r, c, !v);
        }
    }
    out
}
