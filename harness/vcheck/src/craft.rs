//! Adversarial payloads derived from the oracle's model of the symbol: byte-mode inputs chosen so
//! that the DATA codewords (or the placed, unmasked data modules) take a prescribed shape. Random
//! payloads never produce these: a block that is all padding pattern, a block of zeros in the
//! middle, a symbol whose data area equals one of the mask patterns (so that one of the eight
//! candidates is uniformly light or dark and every counter in the penalty code takes its extreme
//! value), rows of finder look-alikes. Only the data codewords can be steered (the EC codewords
//! follow from them), and the first `4 + count` bits and the final 4 terminator bits are fixed.

use oracle::decode::deinterleave;
use oracle::layout::{self, region_map};
use oracle::tables::{self, BYTE};

/// seeded targets (beyond the 24 fixed ones): mostly random data area, but a few whole rows (26: columns) follow
/// mask k exactly, so that candidate k has a handful of single-colour runs as long as the symbol is wide
/// (N far above any small counter width) while staying in the race for the minimum
pub const TARGET_LONG_ROW_RUNS: usize = 24;
pub const TARGET_LONG_COLUMN_RUNS: usize = 25;
pub const TARGET_COUNT: usize = 24;
pub const TARGET_NAMES: [&str; TARGET_COUNT] = [
    "equals-mask-0", "equals-mask-1", "equals-mask-2", "equals-mask-3", "equals-mask-4", "equals-mask-5", "equals-mask-6", "equals-mask-7",
    "complement-of-mask-0", "complement-of-mask-1", "complement-of-mask-2", "complement-of-mask-3", "complement-of-mask-4", "complement-of-mask-5", "complement-of-mask-6", "complement-of-mask-7",
    "all-light", "all-dark", "finder-lookalike-rows", "finder-lookalike-columns", "row-stripes", "column-stripes", "2x2-blocks", "half-dark-half-light",
];

/// seeded variant for the long-run targets; falls back to `target_bit` for the fixed ones
pub fn target_bit_seeded(target: usize, seed: u64, k_override: Option<usize>, r: usize, c: usize, n: usize) -> bool {
    if target < TARGET_COUNT {
        return target_bit(target, r, c, n);
    }
    let k = k_override.unwrap_or((seed % 8) as usize);
    let lines = 1 + (seed / 8 % 4) as usize;
    let dark = seed / 32 % 2 == 1;
    let line = if target == TARGET_LONG_ROW_RUNS { r } else { c };
    // the chosen lines: hash of (seed, line) below a threshold that selects about `lines` of the n lines
    let h = oracle::rng::mix(seed ^ 0x10c6, line as u64);
    if (h % n as u64) < lines as u64 && k < 8 {
        layout::mask_bit(k, r, c) ^ dark
    } else {
        oracle::rng::mix(seed, (r * 200 + c) as u64) & 1 == 1
    }
}

/// wanted value (true = dark) of the placed, unmasked module at (row, column)
pub fn target_bit(target: usize, r: usize, c: usize, n: usize) -> bool {
    const FINDER: [bool; 11] = [true, false, true, true, true, false, true, false, false, false, false];
    match target {
        0..=7 => layout::mask_bit(target, r, c),
        8..=15 => !layout::mask_bit(target - 8, r, c),
        16 => false,
        17 => true,
        18 => FINDER[c % 11],
        19 => FINDER[r % 11],
        20 => r % 2 == 0,
        21 => c % 2 == 0,
        22 => (r / 2 + c / 2) % 2 == 0,
        _ => r < n / 2,
    }
}

/// Byte-mode payload of capacity-filling length whose data codewords equal `data` except for the
/// bits that the encoding fixes (mode indicator + character count at the front, terminator at the end).
pub fn payload_for_data_codewords(v: usize, level: usize, data: &[u8]) -> Vec<u8> {
    let lay = tables::layout(v, level);
    assert_eq!(data.len(), lay.data_codewords);
    let len = tables::capacity(v, level, BYTE);
    let hb = 4 + tables::cci_bits(v, BYTE);
    let bit = |i: usize| data[i / 8] & (0x80 >> (i % 8)) != 0;
    (0..len)
        .map(|j| {
            let mut b = 0u8;
            for k in 0..8 {
                if bit(hb + 8 * j + k) {
                    b |= 0x80 >> k;
                }
            }
            b
        })
        .collect()
}

/// Data codewords (in block order) such that the placed, unmasked data-codeword modules follow `target`.
pub fn data_codewords_for_target(v: usize, level: usize, target: usize) -> Vec<u8> {
    data_codewords_for_target_seeded(v, level, target, 0, None)
}

pub fn data_codewords_for_target_seeded(v: usize, level: usize, target: usize, seed: u64, k_override: Option<usize>) -> Vec<u8> {
    let map = region_map(v);
    let lay = tables::layout(v, level);
    let n = map.size;
    // interleaved stream the matrix should carry
    let mut stream = vec![0u8; lay.total];
    for (i, &(r, c)) in map.zigzag.iter().enumerate() {
        if i < lay.total * 8 && target_bit_seeded(target, seed, k_override, r, c, n) {
            stream[i / 8] |= 0x80 >> (i % 8);
        }
    }
    // the standard de-interleave tells which stream byte is data codeword p of block b
    let blocks = deinterleave(&stream, &lay);
    blocks.into_iter().flat_map(|b| b.data).collect()
}

/// `k_override`: for the seeded long-run targets, the mask the chosen lines follow (default: seed % 8)
pub fn payload_for_target(v: usize, level: usize, target: usize, seed: u64, k_override: Option<usize>) -> Vec<u8> {
    payload_for_data_codewords(v, level, &data_codewords_for_target_seeded(v, level, target, seed, k_override))
}

pub const CW_SHAPE_COUNT: usize = 11;
pub const CW_SHAPE_NAMES: [&str; CW_SHAPE_COUNT] = [
    "every-block-pad-pattern", "pad-pattern-except-last-byte-of-one-block", "pad-pattern-phase-11", "zero-blocks-after-the-first", "one-zero-block-in-the-middle",
    "identical-blocks", "short-block-equals-head-of-long-block", "leading-zero-bytes-in-every-block",
    "block-prefix-is-itself-a-codeword-then-zero", "block-prefix-is-itself-a-codeword-then-data", "running-remainder-leads-with-zero",
];

/// the first three data codewords of a capacity-filling byte-mode symbol (mode indicator + count + 4 payload bits)
fn byte_header(v: usize, level: usize) -> [u8; 3] {
    let len = tables::capacity(v, level, BYTE);
    let cci = tables::cci_bits(v, BYTE);
    let bits: u32 = if cci == 8 { (0b0100 << 20) | ((len as u32) << 12) } else { (0b0100 << 20) | ((len as u32) << 4) };
    [(bits >> 16) as u8, (bits >> 8) as u8, bits as u8]
}

/// Data codewords with a prescribed per-block shape (block boundaries from the oracle's Table 9).
pub fn data_codewords_for_shape(v: usize, level: usize, shape: usize, seed: u64) -> Vec<u8> {
    let lay = tables::layout(v, level);
    let mut rng = oracle::rng::Rng::new(seed ^ 0xc4af);
    let mut out = Vec::with_capacity(lay.data_codewords);
    let pick = rng.below(lay.num_blocks);
    let proto: Vec<u8> = (0..lay.short_data + 1).map(|_| rng.next_u64() as u8).collect();
    for b in 0..lay.num_blocks {
        let len = lay.block_data_len(b);
        let pad = |phase: usize| -> Vec<u8> { (0..len).map(|i| if (i + phase) % 2 == 0 { 0xEC } else { 0x11 }).collect() };
        let blk: Vec<u8> = match shape {
            0 => pad(0),
            1 => {
                let mut p = pad(0);
                if b == pick {
                    p[len - 1] = rng.next_u64() as u8;
                }
                p
            }
            2 => pad(1),
            3 => {
                if b == 0 {
                    (0..len).map(|_| rng.next_u64() as u8).collect()
                } else {
                    vec![0; len]
                }
            }
            4 => {
                if b == pick && b != 0 {
                    vec![0; len]
                } else {
                    (0..len).map(|_| rng.next_u64() as u8).collect()
                }
            }
            5 | 6 => proto[..len].to_vec(),
            7 => {
                let z = 1 + rng.below(len.min(6));
                (0..len).map(|i| if i < z { 0 } else { rng.next_u64() as u8 }).collect()
            }
            8 | 9 => {
                // k data bytes followed by exactly their own EC bytes: the long division's running remainder is
                // zero at that point; then a zero byte (8) or data (9), then more data. Block 0 starts with the
                // bytes the byte-mode header will put there anyway, so the shape survives the trip through the API.
                let ec = lay.ec_per_block;
                let mut blk: Vec<u8> = (0..len).map(|_| 1 + (rng.next_u64() % 255) as u8).collect();
                if b == 0 {
                    let h = byte_header(v, level);
                    blk[0] = h[0];
                    blk[1] = h[1];
                    blk[2] = (h[2] & 0xf0) | (blk[2] & 0x0f);
                }
                if len >= ec + 5 {
                    let k = 3 + rng.below(len - ec - 4);
                    let rem = oracle::gf::rs_remainder(&blk[..k], ec);
                    blk[k..k + ec].copy_from_slice(&rem);
                    if shape == 8 {
                        blk[k + ec] = 0;
                    }
                }
                blk
            }
            _ => {
                // at several positions the next byte equals the leading coefficient of the running remainder,
                // so the working coefficient the division looks at is zero there
                let ec = lay.ec_per_block;
                let mut blk: Vec<u8> = (0..len).map(|_| rng.next_u64() as u8).collect();
                if b == 0 {
                    let h = byte_header(v, level);
                    blk[0] = h[0];
                    blk[1] = h[1];
                    blk[2] = (h[2] & 0xf0) | (blk[2] & 0x0f);
                }
                let mut p = 3 + rng.below(4);
                while p < len {
                    let rem = oracle::gf::rs_remainder(&blk[..p], ec);
                    blk[p] = rem[0];
                    if p + 1 < len && rng.chance(1, 2) {
                        let rem2 = oracle::gf::rs_remainder(&blk[..p + 1], ec);
                        blk[p + 1] = rem2[0];
                    }
                    p += 2 + rng.below(9);
                }
                blk
            }
        };
        out.extend(blk);
    }
    out
}

pub fn payload_for_shape(v: usize, level: usize, shape: usize, seed: u64) -> Vec<u8> {
    payload_for_data_codewords(v, level, &data_codewords_for_shape(v, level, shape, seed))
}

/// Byte payload (capacity-filling, forced version/level/mask) whose FINAL symbol has exactly `k` dark modules
/// (function patterns and format information included). The count is data dependent and lands on a given value
/// with probability of the order of 1/100 for a random payload. The modules of the data codewords can be steered
/// bit by bit; the EC codewords of a block are re-rolled by any change in that block. So: (A) hill-climb the number
/// of dark DATA-codeword modules to `k - (what the rest contributes on average)`, (B) keep that number fixed and
/// re-roll the rest with neutral changes until the total is exactly `k`. Judged by the oracle's own encoder
/// (segment encoder + RS + placement + mask + format). None if `budget` encodes do not suffice.
pub fn payload_for_dark_count(v: usize, level: usize, mask: usize, k: usize, seed: u64, budget: usize) -> Option<Vec<u8>> {
    let len = tables::capacity(v, level, BYTE);
    let lay = tables::layout(v, level);
    let map = region_map(v);
    let ndata_bits = 8 * lay.data_codewords;
    let mut rng = oracle::rng::Rng::new(seed ^ 0xda2c);
    // (dark modules of the data codewords, dark modules of everything else)
    let eval = |p: &[u8]| -> Option<(usize, usize)> {
        let d = oracle::segment::data_codewords(BYTE, v, level, p).ok()?;
        let m = oracle::decode::build_symbol(v, level, mask, &d);
        let total = m.dark.iter().filter(|&&b| b).count();
        let data = map.zigzag.iter().take(ndata_bits).filter(|&&(r, c)| m.get(r, c)).count();
        Some((data, total - data))
    };
    if len < 4 {
        return None;
    }
    let mut p: Vec<u8> = (0..len).map(|_| rng.byte()).collect();
    p[0] = b'~'; // outside the 45-character set: the class stays "byte" whatever happens to the rest
    let (mut data, mut rest) = eval(&p)?;
    let mut used = 1usize;
    let (mut rest_sum, mut rest_n) = (rest as f64, 1.0f64);
    loop {
        if data + rest == k {
            break;
        }
        if used >= budget {
            if std::env::var_os("VERIF_DEBUG_DARK").is_some() {
                eprintln!("dark search v{v} level {level} mask {mask}: target {k}, stopped at {} after {used} encodes", data + rest);
            }
            return None;
        }
        let want_data = k as f64 - rest_sum / rest_n;
        if want_data < 0.0 || want_data > ndata_bits as f64 {
            return None;
        }
        let gap = want_data - data as f64;
        let at = 1 + rng.below(len - 1);
        let old = p[at];
        if gap.abs() > 12.0 {
            p[at] = rng.byte();
        } else if gap.abs() >= 1.0 {
            p[at] ^= 1u8 << rng.below(8);
        } else {
            // neutral re-roll: two bit flips somewhere in the payload
            p[at] ^= 1u8 << rng.below(8);
            let at2 = 1 + rng.below(len - 1);
            p[at2] ^= 1u8 << rng.below(8);
            let (d2, r2) = eval(&p)?;
            used += 1;
            rest_sum += r2 as f64;
            rest_n += 1.0;
            // (the changed state is kept either way: if the data count moved, the next rounds steer it back)
            data = d2;
            rest = r2;
            continue;
        }
        let (d2, r2) = eval(&p)?;
        used += 1;
        rest_sum += r2 as f64;
        rest_n += 1.0;
        if (d2 as f64 - want_data).abs() <= gap.abs() {
            data = d2;
            rest = r2;
        } else {
            p[at] = old;
        }
    }
    if std::env::var_os("VERIF_DEBUG_DARK").is_some() {
        eprintln!("dark search v{v} level {level} mask {mask}: target {k} reached after {used} encodes");
    }
    Some(p)
}

