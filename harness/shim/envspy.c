// LD_PRELOAD monitor of the process environment as the program under observation consults it.
//
//   ENVSPY_LOG=<file>      every distinct variable NAME passed to getenv()/secure_getenv() is appended, one per line,
//                          prefixed by "set " (the real environment has it) or "unset "
//   ENVSPY_ANSWER=<value>  when present: a variable that is NOT in the real environment and does not carry one of the
//                          protected prefixes below is answered with <value> instead of NULL, so any code that keys
//                          its behaviour on the mere presence / truthiness of SOME variable sees it present, whatever
//                          its name - the monitors then judge the output as usual.
//
//   ENVSPY_CLOCK=1         the wall clock (clock_gettime(CLOCK_REALTIME), gettimeofday, time) is logged as the pseudo
//                          name "<wall-clock>" when consulted and jumps forward by 25 h 1 min 1 s at every call,
//                          starting in another year: output that depends on the date or time differs between two
//                          renders of the same thing, which the determinism and renderer monitors compare anyway.
//                          The monotonic clock (Instant, used by the harness for budgets) is left alone.
//   ENVSPY_TTY=1           isatty() answers 1 for descriptors 0-2 (logged as "<isatty>"): behaviour keyed on
//                          "writing to a terminal" is exercised although the child's stdout is a pipe.
//
// Rust's std::env::var/var_os reach libc through getenv (under std's own lock); std::env::vars() walks `environ`
// directly and is not answered here (logged limit).  The hook never allocates and never calls back into Rust.
#define _GNU_SOURCE
#include <dlfcn.h>
#include <fcntl.h>
#include <string.h>
#include <sys/time.h>
#include <time.h>
#include <unistd.h>

static char *(*real_getenv)(const char *);
static int lock_flag;
static char seen[512][64];
static int nseen;
static int logfd = -2;

// answering these with a made-up value would change the harness, the Rust runtime or the loader, not fast_qr
static const char *const PROTECT[] = {"ENVSPY_", "VERIF_", "VCHECK_", "IOFAULT_", "RUST_", "CARGO", "LD_", "MALLOC_", "GLIBC_", "LLVM_", "TSAN_", "ASAN_", "MIRI", 0};

static void resolve(void) {
    if (!real_getenv) real_getenv = (char *(*)(const char *))dlsym(RTLD_NEXT, "getenv");
}

static void note(const char *name, int present) {
    while (__atomic_test_and_set(&lock_flag, __ATOMIC_ACQUIRE)) {}
    int known = 0;
    for (int i = 0; i < nseen; i++)
        if (strncmp(seen[i], name, 63) == 0) { known = 1; break; }
    if (!known && nseen < 512) {
        strncpy(seen[nseen], name, 63);
        seen[nseen][63] = 0;
        nseen++;
        if (logfd == -2) {
            const char *p = real_getenv("ENVSPY_LOG");
            logfd = p ? open(p, O_WRONLY | O_CREAT | O_APPEND, 0644) : -1;
        }
        if (logfd >= 0) {
            char line[96];
            int n = 0;
            const char *tag = present ? "set " : "unset ";
            for (const char *t = tag; *t; t++) line[n++] = *t;
            for (const char *t = name; *t && n < 94; t++) line[n++] = *t;
            line[n++] = '\n';
            ssize_t w = write(logfd, line, n);
            (void)w;
        }
    }
    __atomic_clear(&lock_flag, __ATOMIC_RELEASE);
}

static char *answer(const char *name) {
    resolve();
    if (!real_getenv || !name) return 0;
    char *v = real_getenv(name);
    note(name, v != 0);
    if (v) return v;
    char *a = real_getenv("ENVSPY_ANSWER");
    if (!a) return 0;
    for (int i = 0; PROTECT[i]; i++)
        if (strncmp(name, PROTECT[i], strlen(PROTECT[i])) == 0) return 0;
    return a;
}

char *getenv(const char *name) { return answer(name); }
char *secure_getenv(const char *name) { return answer(name); }

static long clock_calls;
static long skew(void) {
    long n = __atomic_add_fetch(&clock_calls, 1, __ATOMIC_RELAXED);
    return 1234567890L + n * 90061L;
}
static int clock_on(void) {
    resolve();
    return real_getenv && real_getenv("ENVSPY_CLOCK") != 0;
}

int clock_gettime(clockid_t c, struct timespec *ts) {
    static int (*real)(clockid_t, struct timespec *);
    if (!real) real = (int (*)(clockid_t, struct timespec *))dlsym(RTLD_NEXT, "clock_gettime");
    int r = real(c, ts);
    if (r == 0 && c == CLOCK_REALTIME && clock_on()) {
        note("<wall-clock>", 0);
        ts->tv_sec += skew();
    }
    return r;
}

int gettimeofday(struct timeval *tv, void *tz) {
    static int (*real)(struct timeval *, void *);
    if (!real) real = (int (*)(struct timeval *, void *))dlsym(RTLD_NEXT, "gettimeofday");
    int r = real(tv, tz);
    if (r == 0 && tv && clock_on()) {
        note("<wall-clock>", 0);
        tv->tv_sec += skew();
    }
    return r;
}

time_t time(time_t *out) {
    static time_t (*real)(time_t *);
    if (!real) real = (time_t (*)(time_t *))dlsym(RTLD_NEXT, "time");
    time_t t = real(0);
    if (clock_on()) {
        note("<wall-clock>", 0);
        t += skew();
    }
    if (out) *out = t;
    return t;
}

int isatty(int fd) {
    static int (*real)(int);
    if (!real) real = (int (*)(int))dlsym(RTLD_NEXT, "isatty");
    resolve();
    if (fd >= 0 && fd <= 2 && real_getenv && real_getenv("ENVSPY_TTY")) {
        note("<isatty>", 0);
        return 1;
    }
    return real(fd);
}
