// LD_PRELOAD I/O fault injector for the C19 monitor.
//
// Interposes open/open64/openat/openat64/creat/creat64/write/close. Only files whose path
// starts with $IOFAULT_DIR are affected; writes are matched through the descriptors those
// opens returned. Every interception that matters and every fault actually delivered is
// appended to $IOFAULT_LOG (written with raw syscalls, never through the interposed path).
//
//   IOFAULT_MODE   none | open | write | eintr
//   IOFAULT_ERRNO  errno to deliver (open / write modes)
//   IOFAULT_K      deliver the write fault at the k-th matched write (1-based; default 1)
//   IOFAULT_CHUNK  if > 0 every matched write is shortened to at most this many bytes
//
// Build: gcc -O2 -fPIC -shared -o iofault.so iofault.c -ldl
#define _GNU_SOURCE
#include <dlfcn.h>
#include <errno.h>
#include <fcntl.h>
#include <stdarg.h>
#include <stdio.h>
#include <stdlib.h>
#include <string.h>
#include <sys/syscall.h>
#include <sys/types.h>
#include <unistd.h>

static int inited = 0;
static const char *dir = NULL;
static const char *mode = "none";
static int err_no = 0;
static long kth = 1;
static long chunk = 0;
static int logfd = -1;
static unsigned char tracked[4096];
static long nwrites = 0;
static long nopens = 0;

static void logline(const char *fmt, ...) {
    if (logfd < 0) return;
    char buf[700];
    va_list ap;
    va_start(ap, fmt);
    int n = vsnprintf(buf, sizeof buf - 1, fmt, ap);
    va_end(ap);
    if (n < 0) return;
    if (n > (int)sizeof buf - 2) n = sizeof buf - 2;
    buf[n++] = '\n';
    syscall(SYS_write, logfd, buf, n);
}

static void init(void) {
    if (inited) return;
    inited = 1;
    dir = getenv("IOFAULT_DIR");
    const char *m = getenv("IOFAULT_MODE");
    if (m) mode = m;
    const char *e = getenv("IOFAULT_ERRNO");
    if (e) err_no = atoi(e);
    const char *k = getenv("IOFAULT_K");
    if (k) kth = atol(k);
    const char *c = getenv("IOFAULT_CHUNK");
    if (c) chunk = atol(c);
    const char *l = getenv("IOFAULT_LOG");
    if (l) logfd = syscall(SYS_openat, AT_FDCWD, l, O_WRONLY | O_CREAT | O_APPEND | O_CLOEXEC, 0644);
    logline("init mode=%s errno=%d k=%ld chunk=%ld dir=%s", mode, err_no, kth, chunk, dir ? dir : "(none)");
}

static int matches(const char *path) {
    init();
    return dir && path && strncmp(path, dir, strlen(dir)) == 0;
}

// returns 1 if the open must fail (errno set)
static int before_open(const char *path, int flags) {
    if (!matches(path)) return 0;
    nopens++;
    int wr = (flags & O_ACCMODE) != O_RDONLY;
    logline("open #%ld path=%s write=%d", nopens, path, wr);
    if (wr && strcmp(mode, "open") == 0) {
        logline("DELIVERED open errno=%d", err_no);
        errno = err_no;
        return 1;
    }
    return 0;
}

static void after_open(const char *path, int flags, int fd) {
    if (fd >= 0 && fd < (int)sizeof tracked && matches(path) && (flags & O_ACCMODE) != O_RDONLY) {
        tracked[fd] = 1;
        logline("track fd=%d", fd);
    }
}

#define REAL(name) static __typeof__(name) *real = NULL; if (!real) real = dlsym(RTLD_NEXT, #name)

int open(const char *path, int flags, ...) {
    REAL(open);
    mode_t m = 0;
    if (flags & (O_CREAT | O_TMPFILE)) { va_list ap; va_start(ap, flags); m = va_arg(ap, mode_t); va_end(ap); }
    if (before_open(path, flags)) return -1;
    int fd = real(path, flags, m);
    after_open(path, flags, fd);
    return fd;
}

int open64(const char *path, int flags, ...) {
    REAL(open64);
    mode_t m = 0;
    if (flags & (O_CREAT | O_TMPFILE)) { va_list ap; va_start(ap, flags); m = va_arg(ap, mode_t); va_end(ap); }
    if (before_open(path, flags)) return -1;
    int fd = real(path, flags, m);
    after_open(path, flags, fd);
    return fd;
}

int openat(int dfd, const char *path, int flags, ...) {
    REAL(openat);
    mode_t m = 0;
    if (flags & (O_CREAT | O_TMPFILE)) { va_list ap; va_start(ap, flags); m = va_arg(ap, mode_t); va_end(ap); }
    if (before_open(path, flags)) return -1;
    int fd = real(dfd, path, flags, m);
    after_open(path, flags, fd);
    return fd;
}

int openat64(int dfd, const char *path, int flags, ...) {
    REAL(openat64);
    mode_t m = 0;
    if (flags & (O_CREAT | O_TMPFILE)) { va_list ap; va_start(ap, flags); m = va_arg(ap, mode_t); va_end(ap); }
    if (before_open(path, flags)) return -1;
    int fd = real(dfd, path, flags, m);
    after_open(path, flags, fd);
    return fd;
}

int creat(const char *path, mode_t m) {
    REAL(creat);
    if (before_open(path, O_WRONLY | O_CREAT | O_TRUNC)) return -1;
    int fd = real(path, m);
    after_open(path, O_WRONLY, fd);
    return fd;
}

int creat64(const char *path, mode_t m) {
    REAL(creat64);
    if (before_open(path, O_WRONLY | O_CREAT | O_TRUNC)) return -1;
    int fd = real(path, m);
    after_open(path, O_WRONLY, fd);
    return fd;
}

ssize_t write(int fd, const void *buf, size_t len) {
    REAL(write);
    init();
    if (fd < 0 || fd >= (int)sizeof tracked || !tracked[fd]) return real(fd, buf, len);
    nwrites++;
    logline("write #%ld fd=%d len=%zu", nwrites, fd, len);
    if (strcmp(mode, "write") == 0 && nwrites == kth) {
        logline("DELIVERED write errno=%d at write #%ld", err_no, nwrites);
        errno = err_no;
        return -1;
    }
    if (strcmp(mode, "eintr") == 0 && (nwrites % 2) == 1) {
        logline("DELIVERED eintr at write #%ld", nwrites);
        errno = EINTR;
        return -1;
    }
    if (chunk > 0 && len > (size_t)chunk) {
        logline("DELIVERED short %ld of %zu at write #%ld", chunk, len, nwrites);
        len = (size_t)chunk;
    }
    return real(fd, buf, len);
}

int close(int fd) {
    REAL(close);
    if (fd >= 0 && fd < (int)sizeof tracked && tracked[fd]) {
        tracked[fd] = 0;
        logline("close fd=%d", fd);
    }
    return real(fd);
}
