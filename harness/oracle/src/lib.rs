//! Reference model of ISO/IEC 18004 used as the oracle of the fast_qr runtime monitors.
//! This crate has **no dependency on fast_qr** and shares no table with it.

pub mod bch;
pub mod decode;
pub mod gf;
pub mod layout;
pub mod penalty;
pub mod png;
pub mod rng;
pub mod segment;
pub mod svgpath;
pub mod tables;
