//! GF(2^8) modulo x^8+x^4+x^3+x^2+1 (0x11D) without any table, plus Reed-Solomon
//! encoding, syndromes and a Berlekamp-Massey / Chien / Forney decoder.
//!
//! Nothing in this file is shared with fast_qr: multiplication is shift-and-xor,
//! powers are repeated multiplication.

/// Carry-less "Russian peasant" multiplication modulo 0x11D.
pub fn mul(mut a: u8, mut b: u8) -> u8 {
    let mut r = 0u8;
    while b != 0 {
        if b & 1 != 0 {
            r ^= a;
        }
        let hi = a & 0x80 != 0;
        a <<= 1;
        if hi {
            a ^= 0x1D;
        }
        b >>= 1;
    }
    r
}

/// alpha^e with alpha = 2.
pub fn alpha_pow(e: usize) -> u8 {
    let mut r = 1u8;
    for _ in 0..(e % 255) {
        r = mul(r, 2);
    }
    r
}

pub fn pow(a: u8, mut e: usize) -> u8 {
    let mut base = a;
    let mut r = 1u8;
    while e > 0 {
        if e & 1 == 1 {
            r = mul(r, base);
        }
        base = mul(base, base);
        e >>= 1;
    }
    r
}

pub fn inv(a: u8) -> u8 {
    assert!(a != 0, "inverse of zero");
    pow(a, 254)
}

/// Discrete log base alpha (None for 0). Linear search: slow, only used in checks.
pub fn log(a: u8) -> Option<usize> {
    if a == 0 {
        return None;
    }
    let mut x = 1u8;
    for e in 0..255 {
        if x == a {
            return Some(e);
        }
        x = mul(x, 2);
    }
    unreachable!()
}

/// g_n(x) = prod_{i<n} (x - alpha^i), coefficients highest degree first (monic, length n+1).
pub fn generator(n: usize) -> Vec<u8> {
    let mut g = vec![1u8];
    for i in 0..n {
        let root = alpha_pow(i);
        let mut next = vec![0u8; g.len() + 1];
        for (k, &c) in g.iter().enumerate() {
            next[k] ^= c; // * x
            next[k + 1] ^= mul(c, root); // * root (minus == plus)
        }
        g = next;
    }
    g
}

/// Cached generators for degrees 0..=68.
pub fn generator_cached(n: usize) -> &'static [u8] {
    static G: std::sync::OnceLock<Vec<Vec<u8>>> = std::sync::OnceLock::new();
    &G.get_or_init(|| (0..=68).map(generator).collect())[n]
}

/// Remainder of data(x) * x^n divided by g_n(x); n bytes, highest degree first.
pub fn rs_remainder(data: &[u8], n: usize) -> Vec<u8> {
    let g = generator_cached(n);
    let mut rem = vec![0u8; n];
    for &d in data {
        let factor = d ^ rem[0];
        rem.rotate_left(1);
        rem[n - 1] = 0;
        if factor != 0 {
            for k in 0..n {
                rem[k] ^= mul(g[k + 1], factor);
            }
        }
    }
    rem
}

/// Evaluate polynomial (highest degree first) at x.
pub fn eval(poly: &[u8], x: u8) -> u8 {
    let mut r = 0u8;
    for &c in poly {
        r = mul(r, x) ^ c;
    }
    r
}

/// Syndromes S_i = block(alpha^i), i in 0..n, block = data ++ ec (highest degree first).
pub fn syndromes(block: &[u8], n: usize) -> Vec<u8> {
    (0..n).map(|i| eval(block, alpha_pow(i))).collect()
}

/// Standard RS decoder. Returns the corrected block and number of corrected symbols,
/// or None if uncorrectable.
pub fn rs_decode(block: &[u8], n: usize) -> Option<(Vec<u8>, usize)> {
    let synd = syndromes(block, n);
    if synd.iter().all(|&s| s == 0) {
        return Some((block.to_vec(), 0));
    }
    // Berlekamp-Massey; polynomials lowest degree first here.
    let mut c = vec![1u8];
    let mut b = vec![1u8];
    let mut l = 0usize;
    let mut m = 1usize;
    let mut bb = 1u8;
    for i in 0..n {
        let mut d = synd[i];
        for j in 1..=l {
            if j < c.len() {
                d ^= mul(c[j], synd[i - j]);
            }
        }
        if d == 0 {
            m += 1;
        } else if 2 * l <= i {
            let t = c.clone();
            let coef = mul(d, inv(bb));
            if c.len() < b.len() + m {
                c.resize(b.len() + m, 0);
            }
            for (j, &bj) in b.iter().enumerate() {
                c[j + m] ^= mul(coef, bj);
            }
            l = i + 1 - l;
            b = t;
            bb = d;
            m = 1;
        } else {
            let coef = mul(d, inv(bb));
            if c.len() < b.len() + m {
                c.resize(b.len() + m, 0);
            }
            for (j, &bj) in b.iter().enumerate() {
                c[j + m] ^= mul(coef, bj);
            }
            m += 1;
        }
    }
    while c.len() > 1 && *c.last().unwrap() == 0 {
        c.pop();
    }
    let nerr = c.len() - 1;
    if nerr != l || 2 * nerr > n {
        return None;
    }
    // Chien search: error at position p (power of x = len-1-index) iff c(alpha^-p) == 0
    let len = block.len();
    let mut err_pos = Vec::new(); // powers
    for p in 0..len {
        let xinv = alpha_pow((255 - (p % 255)) % 255);
        // evaluate c (lowest first) at xinv
        let mut v = 0u8;
        let mut xp = 1u8;
        for &cj in &c {
            v ^= mul(cj, xp);
            xp = mul(xp, xinv);
        }
        if v == 0 {
            err_pos.push(p);
        }
    }
    if err_pos.len() != nerr {
        return None;
    }
    // Forney: omega(x) = [S(x) * c(x)] mod x^n, S lowest first
    let mut omega = vec![0u8; n];
    for i in 0..n {
        let mut v = 0u8;
        for j in 0..=i {
            if j < c.len() {
                v ^= mul(c[j], synd[i - j]);
            }
        }
        omega[i] = v;
    }
    // formal derivative of c
    let mut cprime = vec![0u8; c.len().saturating_sub(1).max(1)];
    for j in 1..c.len() {
        if j % 2 == 1 {
            cprime[j - 1] = c[j];
        }
    }
    let mut out = block.to_vec();
    for &p in &err_pos {
        let x = alpha_pow(p % 255);
        let xinv = inv(x);
        let mut num = 0u8;
        let mut xp = 1u8;
        for &o in &omega {
            num ^= mul(o, xp);
            xp = mul(xp, xinv);
        }
        let mut den = 0u8;
        let mut xp = 1u8;
        for &cp in &cprime {
            den ^= mul(cp, xp);
            xp = mul(xp, xinv);
        }
        if den == 0 {
            return None;
        }
        // first consecutive root is alpha^0 => magnitude = x^(1-0) * omega(x^-1)/c'(x^-1)
        let mag = mul(x, mul(num, inv(den)));
        out[len - 1 - p] ^= mag;
    }
    if syndromes(&out, n).iter().any(|&s| s != 0) {
        return None;
    }
    Some((out, nerr))
}

#[cfg(test)]
mod tests {
    use super::*;

    #[test]
    fn field_axioms_sample() {
        for a in 1..=255u8 {
            assert_eq!(mul(a, inv(a)), 1);
            assert_eq!(alpha_pow(log(a).unwrap()), a);
        }
        assert_eq!(alpha_pow(8), 0x1D);
        assert_eq!(alpha_pow(255), 1);
    }

    #[test]
    fn annex_i_example() {
        // ISO/IEC 18004 Annex I: "01234567" 1-M
        let data = [
            0x10, 0x20, 0x0C, 0x56, 0x61, 0x80, 0xEC, 0x11, 0xEC, 0x11, 0xEC, 0x11, 0xEC, 0x11,
            0xEC, 0x11,
        ];
        let ec = rs_remainder(&data, 10);
        assert_eq!(
            ec,
            vec![0xA5, 0x24, 0xD4, 0xC1, 0xED, 0x36, 0xC7, 0x87, 0x2C, 0x55]
        );
        let mut block = data.to_vec();
        block.extend(&ec);
        assert!(syndromes(&block, 10).iter().all(|&s| s == 0));
    }

    #[test]
    fn decoder_corrects() {
        let mut seed = 12345u64;
        let mut next = || {
            seed = seed.wrapping_mul(6364136223846793005).wrapping_add(1442695040888963407);
            (seed >> 33) as usize
        };
        for &n in &[7usize, 10, 13, 15, 16, 17, 18, 20, 22, 24, 26, 28, 30] {
            for trial in 0..20 {
                let dl = 10 + (next() % 100);
                let data: Vec<u8> = (0..dl).map(|_| next() as u8).collect();
                let mut block = data.clone();
                block.extend(rs_remainder(&data, n));
                let orig = block.clone();
                let t = if trial == 0 { n / 2 } else { next() % (n / 2 + 1) };
                let mut pos = Vec::new();
                while pos.len() < t {
                    let p = next() % block.len();
                    if !pos.contains(&p) {
                        pos.push(p);
                    }
                }
                for &p in &pos {
                    block[p] ^= 1 + (next() % 255) as u8;
                }
                let (fixed, k) = rs_decode(&block, n).expect("correctable");
                assert_eq!(fixed, orig);
                assert_eq!(k, t);
            }
        }
    }
}
