//! SplitMix64: the only source of randomness of the harness, seeded from VERIF_SEED.

#[derive(Clone, Debug)]
pub struct Rng(pub u64);

impl Rng {
    pub fn new(seed: u64) -> Self {
        Rng(seed)
    }
    pub fn next_u64(&mut self) -> u64 {
        self.0 = self.0.wrapping_add(0x9E37_79B9_7F4A_7C15);
        let mut z = self.0;
        z = (z ^ (z >> 30)).wrapping_mul(0xBF58_476D_1CE4_E5B9);
        z = (z ^ (z >> 27)).wrapping_mul(0x94D0_49BB_1331_11EB);
        z ^ (z >> 31)
    }
    /// uniform in 0..n (n > 0)
    pub fn below(&mut self, n: usize) -> usize {
        (self.next_u64() % n as u64) as usize
    }
    pub fn range(&mut self, lo: usize, hi_incl: usize) -> usize {
        lo + self.below(hi_incl - lo + 1)
    }
    pub fn byte(&mut self) -> u8 {
        (self.next_u64() >> 24) as u8
    }
    pub fn chance(&mut self, num: usize, den: usize) -> bool {
        self.below(den) < num
    }
    pub fn f64(&mut self) -> f64 {
        (self.next_u64() >> 11) as f64 / (1u64 << 53) as f64
    }
    pub fn pick<'a, T>(&mut self, xs: &'a [T]) -> &'a T {
        &xs[self.below(xs.len())]
    }
    /// derive an independent stream
    pub fn fork(&mut self, tag: u64) -> Rng {
        let a = self.next_u64();
        Rng(a ^ tag.wrapping_mul(0xD6E8_FEB8_6659_FD93))
    }
    pub fn shuffle<T>(&mut self, xs: &mut [T]) {
        for i in (1..xs.len()).rev() {
            let j = self.below(i + 1);
            xs.swap(i, j);
        }
    }
}

/// 64-bit FNV-1a, used for payload hashes in distinct-case keys.
pub fn fnv(bytes: &[u8]) -> u64 {
    let mut h = 0xcbf2_9ce4_8422_2325u64;
    for &b in bytes {
        h ^= b as u64;
        h = h.wrapping_mul(0x0000_0100_0000_01B3);
    }
    h
}

pub fn mix(a: u64, b: u64) -> u64 {
    let mut z = a ^ b.wrapping_mul(0x9E37_79B9_7F4A_7C15);
    z = (z ^ (z >> 30)).wrapping_mul(0xBF58_476D_1CE4_E5B9);
    z = (z ^ (z >> 27)).wrapping_mul(0x94D0_49BB_1331_11EB);
    z ^ (z >> 31)
}
