//! ISO/IEC 18004:2015 Table 9 in compact form and everything derived from it.
//! Versions are 1..=40, levels are indexed L=0, M=1, Q=2, H=3, modes Numeric=0,
//! Alphanumeric=1, Byte=2.  None of the numbers below is copied from fast_qr.

pub const L: usize = 0;
pub const M: usize = 1;
pub const Q: usize = 2;
pub const H: usize = 3;

pub const NUMERIC: usize = 0;
pub const ALNUM: usize = 1;
pub const BYTE: usize = 2;

pub const LEVEL_NAMES: [&str; 4] = ["L", "M", "Q", "H"];
pub const MODE_NAMES: [&str; 3] = ["Numeric", "Alphanumeric", "Byte"];

/// EC codewords per block, [level][version-1].
pub const ECC_PER_BLOCK: [[u8; 40]; 4] = [
    [
        7, 10, 15, 20, 26, 18, 20, 24, 30, 18, 20, 24, 26, 30, 22, 24, 28, 30, 28, 28, 28, 28, 30,
        30, 26, 28, 30, 30, 30, 30, 30, 30, 30, 30, 30, 30, 30, 30, 30, 30,
    ],
    [
        10, 16, 26, 18, 24, 16, 18, 22, 22, 26, 30, 22, 22, 24, 24, 28, 28, 26, 26, 26, 26, 28, 28,
        28, 28, 28, 28, 28, 28, 28, 28, 28, 28, 28, 28, 28, 28, 28, 28, 28,
    ],
    [
        13, 22, 18, 26, 18, 24, 18, 22, 20, 24, 28, 26, 24, 20, 30, 24, 28, 28, 26, 30, 28, 30, 30,
        30, 30, 28, 30, 30, 30, 30, 30, 30, 30, 30, 30, 30, 30, 30, 30, 30,
    ],
    [
        17, 28, 22, 16, 22, 28, 26, 26, 24, 28, 24, 28, 22, 24, 24, 30, 28, 28, 26, 28, 30, 24, 30,
        30, 30, 30, 30, 30, 30, 30, 30, 30, 30, 30, 30, 30, 30, 30, 30, 30,
    ],
];

/// Number of error-correction blocks, [level][version-1].
pub const NUM_BLOCKS: [[u8; 40]; 4] = [
    [
        1, 1, 1, 1, 1, 2, 2, 2, 2, 4, 4, 4, 4, 4, 6, 6, 6, 6, 7, 8, 8, 9, 9, 10, 12, 12, 12, 13,
        14, 15, 16, 17, 18, 19, 19, 20, 21, 22, 24, 25,
    ],
    [
        1, 1, 1, 2, 2, 4, 4, 4, 5, 5, 5, 8, 9, 9, 10, 10, 11, 13, 14, 16, 17, 17, 18, 20, 21, 23,
        25, 26, 28, 29, 31, 33, 35, 37, 38, 40, 43, 45, 47, 49,
    ],
    [
        1, 1, 2, 2, 4, 4, 6, 6, 8, 8, 8, 10, 12, 16, 12, 17, 16, 18, 21, 20, 23, 23, 25, 27, 29,
        34, 34, 35, 38, 40, 43, 45, 48, 51, 53, 56, 59, 62, 65, 68,
    ],
    [
        1, 1, 2, 4, 4, 4, 5, 6, 8, 8, 11, 11, 16, 16, 18, 16, 19, 21, 25, 25, 25, 34, 30, 32, 35,
        37, 40, 42, 45, 48, 51, 54, 57, 60, 63, 66, 70, 74, 77, 81,
    ],
];

/// Annex E, Table E.1: row/column coordinates of alignment pattern centres.
pub const ALIGNMENT: [&[usize]; 40] = [
    &[],
    &[6, 18],
    &[6, 22],
    &[6, 26],
    &[6, 30],
    &[6, 34],
    &[6, 22, 38],
    &[6, 24, 42],
    &[6, 26, 46],
    &[6, 28, 50],
    &[6, 30, 54],
    &[6, 32, 58],
    &[6, 34, 62],
    &[6, 26, 46, 66],
    &[6, 26, 48, 70],
    &[6, 26, 50, 74],
    &[6, 30, 54, 78],
    &[6, 30, 56, 82],
    &[6, 30, 58, 86],
    &[6, 34, 62, 90],
    &[6, 28, 50, 72, 94],
    &[6, 26, 50, 74, 98],
    &[6, 30, 54, 78, 102],
    &[6, 28, 54, 80, 106],
    &[6, 32, 58, 84, 110],
    &[6, 30, 58, 86, 114],
    &[6, 34, 62, 90, 118],
    &[6, 26, 50, 74, 98, 122],
    &[6, 30, 54, 78, 102, 126],
    &[6, 26, 52, 78, 104, 130],
    &[6, 30, 56, 82, 108, 134],
    &[6, 34, 60, 86, 112, 138],
    &[6, 30, 58, 86, 114, 142],
    &[6, 34, 62, 90, 118, 146],
    &[6, 30, 54, 78, 102, 126, 150],
    &[6, 24, 50, 76, 102, 128, 154],
    &[6, 28, 54, 80, 106, 132, 158],
    &[6, 32, 58, 84, 110, 136, 162],
    &[6, 26, 54, 82, 110, 138, 166],
    &[6, 30, 58, 86, 114, 142, 170],
];

/// Alignment centres by the well-known generating rule (used to cross-check the literal table).
pub fn alignment_by_formula(v: usize) -> Vec<usize> {
    if v == 1 {
        return vec![];
    }
    let n = v / 7 + 2;
    let size = 17 + 4 * v;
    let step = if v == 32 {
        26
    } else {
        ((v * 4 + n * 2 + 1) / (n * 2 - 2)) * 2
    };
    let mut out = vec![0usize; n];
    out[0] = 6;
    let mut pos = (size - 7) as isize;
    for i in (1..n).rev() {
        out[i] = pos as usize;
        pos -= step as isize;
    }
    out
}

pub fn size(v: usize) -> usize {
    17 + 4 * v
}

/// Number of modules available for data + EC + remainder bits.
pub fn raw_modules(v: usize) -> usize {
    let mut raw = (16 * v + 128) * v + 64;
    if v >= 2 {
        let na = v / 7 + 2;
        raw -= (25 * na - 10) * na - 55;
        if v >= 7 {
            raw -= 36;
        }
    }
    raw
}

pub fn total_codewords(v: usize) -> usize {
    raw_modules(v) / 8
}

pub fn remainder_bits(v: usize) -> usize {
    raw_modules(v) % 8
}

#[derive(Clone, Debug, PartialEq, Eq)]
pub struct Layout {
    pub version: usize,
    pub level: usize,
    pub total: usize,
    pub ec_per_block: usize,
    pub num_blocks: usize,
    pub num_short: usize,
    pub short_data: usize,
    pub data_codewords: usize,
}

impl Layout {
    /// data length of block `b` (short blocks first)
    pub fn block_data_len(&self, b: usize) -> usize {
        if b < self.num_short {
            self.short_data
        } else {
            self.short_data + 1
        }
    }
    pub fn num_long(&self) -> usize {
        self.num_blocks - self.num_short
    }
}

pub fn layout(v: usize, level: usize) -> Layout {
    let total = total_codewords(v);
    let nb = NUM_BLOCKS[level][v - 1] as usize;
    let ec = ECC_PER_BLOCK[level][v - 1] as usize;
    let num_short = nb - total % nb;
    let short_len = total / nb;
    let short_data = short_len - ec;
    let data_codewords = total - nb * ec;
    Layout {
        version: v,
        level,
        total,
        ec_per_block: ec,
        num_blocks: nb,
        num_short,
        short_data,
        data_codewords,
    }
}

/// Character count indicator width.
pub fn cci_bits(v: usize, mode: usize) -> usize {
    let class = if v <= 9 {
        0
    } else if v <= 26 {
        1
    } else {
        2
    };
    match mode {
        NUMERIC => [10, 12, 14][class],
        ALNUM => [9, 11, 13][class],
        BYTE => [8, 16, 16][class],
        _ => panic!("mode"),
    }
}

/// Payload bits of `len` characters in `mode` (no mode indicator, no count).
pub fn payload_bits(mode: usize, len: usize) -> usize {
    match mode {
        NUMERIC => 10 * (len / 3) + [0, 4, 7][len % 3],
        ALNUM => 11 * (len / 2) + 6 * (len % 2),
        BYTE => 8 * len,
        _ => panic!("mode"),
    }
}

/// Does a single segment of `len` characters fit version v at `level`?
pub fn fits(v: usize, level: usize, mode: usize, len: usize) -> bool {
    let cci = cci_bits(v, mode);
    if len >= (1usize << cci) {
        return false;
    }
    4 + cci + payload_bits(mode, len) <= 8 * layout(v, level).data_codewords
}

/// Largest length that fits (v, level, mode).
pub fn capacity(v: usize, level: usize, mode: usize) -> usize {
    // monotone in len: binary search would do, but a linear scan downwards from a safe
    // upper bound is simple and this is cached by callers.
    let bits = 8 * layout(v, level).data_codewords;
    let mut hi = match mode {
        NUMERIC => bits * 3 / 10 + 3,
        ALNUM => bits * 2 / 11 + 2,
        _ => bits / 8 + 1,
    };
    while hi > 0 && !fits(v, level, mode, hi) {
        hi -= 1;
    }
    hi
}

/// Smallest version that holds `len` characters, or None.
pub fn vmin(level: usize, mode: usize, len: usize) -> Option<usize> {
    (1..=40).find(|&v| fits(v, level, mode, len))
}

/// Precomputed capacities [version-1][level][mode].
pub struct Caps(pub Vec<[[usize; 3]; 4]>);

impl Caps {
    pub fn new() -> Self {
        let mut v = Vec::with_capacity(40);
        for ver in 1..=40 {
            let mut row = [[0usize; 3]; 4];
            for l in 0..4 {
                for m in 0..3 {
                    row[l][m] = capacity(ver, l, m);
                }
            }
            v.push(row);
        }
        Caps(v)
    }
    pub fn cap(&self, v: usize, level: usize, mode: usize) -> usize {
        self.0[v - 1][level][mode]
    }
    pub fn vmin(&self, level: usize, mode: usize, len: usize) -> Option<usize> {
        (1..=40).find(|&v| len <= self.cap(v, level, mode))
    }
}

impl Default for Caps {
    fn default() -> Self {
        Self::new()
    }
}

/// The 45-character alphanumeric set; value of a byte or None.
pub fn alnum_value(c: u8) -> Option<usize> {
    const SET: &[u8; 45] = b"0123456789ABCDEFGHIJKLMNOPQRSTUVWXYZ $%*+-./:";
    SET.iter().position(|&x| x == c)
}

pub fn alnum_char(v: usize) -> u8 {
    const SET: &[u8; 45] = b"0123456789ABCDEFGHIJKLMNOPQRSTUVWXYZ $%*+-./:";
    SET[v]
}

/// Most compact single mode that can represent `input` (property C09's oracle).
pub fn classify(input: &[u8]) -> usize {
    if input.iter().all(|c| (b'0'..=b'9').contains(c)) {
        NUMERIC
    } else if input.iter().all(|&c| alnum_value(c).is_some()) {
        ALNUM
    } else {
        BYTE
    }
}

pub fn mode_accepts(mode: usize, input: &[u8]) -> bool {
    match mode {
        NUMERIC => input.iter().all(|c| c.is_ascii_digit()),
        ALNUM => input.iter().all(|&c| alnum_value(c).is_some()),
        _ => true,
    }
}

#[cfg(test)]
mod tests {
    use super::*;

    #[test]
    fn derived_identities() {
        // well-known anchors of the standard
        assert_eq!(total_codewords(1), 26);
        assert_eq!(total_codewords(40), 3706);
        assert_eq!(remainder_bits(2), 7);
        assert_eq!(remainder_bits(14), 3);
        assert_eq!(remainder_bits(21), 4);
        assert_eq!(layout(1, M).data_codewords, 16);
        assert_eq!(layout(40, L).data_codewords, 2956);
        assert_eq!(layout(40, H).data_codewords, 1276);
        let l = layout(5, Q);
        assert_eq!((l.num_short, l.short_data, l.num_long()), (2, 15, 2));
        // Table 7 anchors
        assert_eq!(capacity(1, L, NUMERIC), 41);
        assert_eq!(capacity(1, H, BYTE), 7);
        assert_eq!(capacity(40, L, NUMERIC), 7089);
        assert_eq!(capacity(40, L, ALNUM), 4296);
        assert_eq!(capacity(40, L, BYTE), 2953);
        assert_eq!(capacity(40, H, BYTE), 1273);
        assert_eq!(capacity(10, M, ALNUM), 311);
        assert_eq!(capacity(27, Q, NUMERIC), 1933);
        for v in 1..=40 {
            assert_eq!(ALIGNMENT[v - 1].to_vec(), alignment_by_formula(v), "v{v}");
            // per-level block sums cover the symbol
            for lvl in 0..4 {
                let l = layout(v, lvl);
                let sum: usize = (0..l.num_blocks)
                    .map(|b| l.block_data_len(b) + l.ec_per_block)
                    .sum();
                assert_eq!(sum, l.total);
                assert!(l.short_data + 1 + l.ec_per_block <= 255);
            }
        }
    }
}
