//! Reference read-out of a symbol from its module *values* only (ISO/IEC 18004 clause 11):
//! size -> version, format information, unmasking, codeword read-out, de-interleaving,
//! Reed-Solomon check/correction, segment parsing.

use crate::layout::{self, region_map};
use crate::segment::{self, Parsed};
use crate::tables::{self, Layout};
use crate::{bch, gf};

#[derive(Clone, PartialEq, Eq)]
pub struct Matrix {
    pub size: usize,
    /// row-major, true = dark
    pub dark: Vec<bool>,
}

impl Matrix {
    pub fn new(size: usize) -> Self {
        Matrix { size, dark: vec![false; size * size] }
    }
    pub fn get(&self, r: usize, c: usize) -> bool {
        self.dark[r * self.size + c]
    }
    pub fn set(&mut self, r: usize, c: usize, v: bool) {
        self.dark[r * self.size + c] = v;
    }
    pub fn to_rows(&self) -> Vec<String> {
        (0..self.size)
            .map(|r| (0..self.size).map(|c| if self.get(r, c) { '#' } else { '.' }).collect())
            .collect()
    }
}

#[derive(Clone, Debug)]
pub struct Block {
    pub data: Vec<u8>,
    pub ec: Vec<u8>,
}

impl Block {
    pub fn whole(&self) -> Vec<u8> {
        let mut v = self.data.clone();
        v.extend_from_slice(&self.ec);
        v
    }
}

#[derive(Clone, Debug)]
pub struct Readout {
    pub version: usize,
    pub format_copy1: u32,
    pub format_copy2: u32,
    pub level: usize,
    pub mask: usize,
    /// hamming distance of each copy from the nearest valid word
    pub format_dist: (u32, u32),
    /// (top-right block, bottom-left block) for v >= 7
    pub version_words: Option<(u32, u32)>,
    /// all codewords in placement (interleaved) order, after unmasking
    pub codewords: Vec<u8>,
    /// remainder bits after unmasking
    pub remainder: Vec<bool>,
    pub layout: Layout,
    pub blocks: Vec<Block>,
}

impl Readout {
    /// data codewords in logical order (block 0 data, block 1 data, ...)
    pub fn data_codewords(&self) -> Vec<u8> {
        self.blocks.iter().flat_map(|b| b.data.iter().copied()).collect()
    }
}

pub fn version_of_size(size: usize) -> Result<usize, String> {
    if size < 21 || (size - 17) % 4 != 0 || (size - 17) / 4 > 40 {
        return Err(format!("size {size} is not 17+4v for v in 1..=40"));
    }
    Ok((size - 17) / 4)
}

pub fn read_format_copies(m: &Matrix) -> (u32, u32) {
    let mut a = 0u32;
    let mut b = 0u32;
    for (k, (pa, pb)) in layout::format_positions(m.size).into_iter().enumerate() {
        if m.get(pa.0, pa.1) {
            a |= 1 << k;
        }
        if m.get(pb.0, pb.1) {
            b |= 1 << k;
        }
    }
    (a, b)
}

pub fn read_version_copies(m: &Matrix) -> (u32, u32) {
    let mut a = 0u32;
    let mut b = 0u32;
    for (k, (pa, pb)) in layout::version_positions(m.size).into_iter().enumerate() {
        if m.get(pa.0, pa.1) {
            a |= 1 << k;
        }
        if m.get(pb.0, pb.1) {
            b |= 1 << k;
        }
    }
    (a, b)
}

/// Read codewords in placement order with the given mask removed.
pub fn read_codewords(m: &Matrix, version: usize, mask: usize) -> (Vec<u8>, Vec<bool>) {
    let map = region_map(version);
    let total = tables::total_codewords(version);
    let mut cw = vec![0u8; total];
    let mut rem = Vec::new();
    for (i, &(r, c)) in map.zigzag.iter().enumerate() {
        let bit = m.get(r, c) ^ layout::mask_bit(mask, r, c);
        if i < total * 8 {
            if bit {
                cw[i / 8] |= 0x80 >> (i % 8);
            }
        } else {
            rem.push(bit);
        }
    }
    (cw, rem)
}

/// Split an interleaved codeword sequence into blocks per ISO Table 9 / 7.6.
pub fn deinterleave(codewords: &[u8], l: &Layout) -> Vec<Block> {
    let mut blocks: Vec<Block> = (0..l.num_blocks)
        .map(|b| Block {
            data: Vec::with_capacity(l.block_data_len(b)),
            ec: Vec::with_capacity(l.ec_per_block),
        })
        .collect();
    let mut it = codewords.iter().copied();
    for i in 0..l.short_data + 1 {
        for b in 0..l.num_blocks {
            if i < l.block_data_len(b) {
                blocks[b].data.push(it.next().expect("enough codewords"));
            }
        }
    }
    for _ in 0..l.ec_per_block {
        for b in blocks.iter_mut() {
            b.ec.push(it.next().expect("enough codewords"));
        }
    }
    assert!(it.next().is_none());
    blocks
}

/// Standard interleave (inverse of `deinterleave`).
pub fn interleave(blocks: &[Block], l: &Layout) -> Vec<u8> {
    let mut out = Vec::with_capacity(l.total);
    for i in 0..l.short_data + 1 {
        for b in blocks {
            if i < b.data.len() {
                out.push(b.data[i]);
            }
        }
    }
    for i in 0..l.ec_per_block {
        for b in blocks {
            out.push(b.ec[i]);
        }
    }
    out
}

pub fn read(m: &Matrix) -> Result<Readout, String> {
    let version = version_of_size(m.size)?;
    let (f1, f2) = read_format_copies(m);
    let (l1, m1, d1) = bch::decode_format(f1);
    let (l2, m2, d2) = bch::decode_format(f2);
    if d1 > 3 && d2 > 3 {
        return Err(format!("format information unreadable: {f1:015b} / {f2:015b}"));
    }
    let (level, mask) = if d1 <= 3 && d2 <= 3 {
        if (l1, m1) != (l2, m2) {
            return Err(format!(
                "format copies disagree: {f1:015b} -> ({},{m1}), {f2:015b} -> ({},{m2})",
                tables::LEVEL_NAMES[l1],
                tables::LEVEL_NAMES[l2]
            ));
        }
        (l1, m1)
    } else if d1 <= 3 {
        (l1, m1)
    } else {
        (l2, m2)
    };
    let version_words = if version >= 7 { Some(read_version_copies(m)) } else { None };
    let (codewords, remainder) = read_codewords(m, version, mask);
    let lay = tables::layout(version, level);
    let blocks = deinterleave(&codewords, &lay);
    Ok(Readout {
        version,
        format_copy1: f1,
        format_copy2: f2,
        level,
        mask,
        format_dist: (d1, d2),
        version_words,
        codewords,
        remainder,
        layout: lay,
        blocks,
    })
}

/// RS-correct every block (standard decoder) and return the data codewords; Err if a block
/// is uncorrectable. Second value = number of codewords corrected in total.
pub fn corrected_data(r: &Readout) -> Result<(Vec<u8>, usize), String> {
    let mut out = Vec::new();
    let mut fixed = 0;
    for (i, b) in r.blocks.iter().enumerate() {
        let whole = b.whole();
        match gf::rs_decode(&whole, r.layout.ec_per_block) {
            Some((w, k)) => {
                out.extend_from_slice(&w[..b.data.len()]);
                fixed += k;
            }
            None => return Err(format!("block {i} is not correctable")),
        }
    }
    Ok((out, fixed))
}

#[derive(Clone, Debug)]
pub struct Decoded {
    pub readout: Readout,
    pub parsed: Parsed,
    pub corrected: usize,
}

/// Complete reference decode.
pub fn decode(m: &Matrix) -> Result<Decoded, String> {
    let readout = read(m)?;
    let (data, corrected) = corrected_data(&readout)?;
    let parsed = segment::parse(&data, readout.version)?;
    Ok(Decoded { readout, parsed, corrected })
}

/// Build a complete symbol from scratch (oracle-side encoder; used for self-checks and as an
/// independent expectation). `data` are data codewords of exactly the right length.
pub fn build_symbol(version: usize, level: usize, mask: usize, data: &[u8]) -> Matrix {
    let map = region_map(version);
    let lay = tables::layout(version, level);
    assert_eq!(data.len(), lay.data_codewords);
    let mut blocks = Vec::new();
    let mut off = 0;
    for b in 0..lay.num_blocks {
        let len = lay.block_data_len(b);
        let d = data[off..off + len].to_vec();
        off += len;
        let ec = gf::rs_remainder(&d, lay.ec_per_block);
        blocks.push(Block { data: d, ec });
    }
    let cw = interleave(&blocks, &lay);
    let n = map.size;
    let mut m = Matrix::new(n);
    for r in 0..n {
        for c in 0..n {
            if let Some(v) = map.fixed[r * n + c] {
                m.set(r, c, v);
            }
        }
    }
    for (i, &(r, c)) in map.zigzag.iter().enumerate() {
        let bit = if i < cw.len() * 8 { cw[i / 8] & (0x80 >> (i % 8)) != 0 } else { false };
        m.set(r, c, bit ^ layout::mask_bit(mask, r, c));
    }
    let fw = bch::format_word(level, mask);
    for (k, (a, b)) in layout::format_positions(n).into_iter().enumerate() {
        let v = fw & (1 << k) != 0;
        m.set(a.0, a.1, v);
        m.set(b.0, b.1, v);
    }
    if version >= 7 {
        let vw = bch::version_word(version);
        for (k, (a, b)) in layout::version_positions(n).into_iter().enumerate() {
            let v = vw & (1 << k) != 0;
            m.set(a.0, a.1, v);
            m.set(b.0, b.1, v);
        }
    }
    m
}

#[cfg(test)]
mod tests {
    use super::*;
    use crate::segment::data_codewords;

    #[test]
    fn own_roundtrip() {
        for v in [1usize, 2, 6, 7, 14, 21, 32, 40] {
            for level in 0..4 {
                for mask in 0..8 {
                    let input = b"HELLO 12";
                    let d = data_codewords(tables::ALNUM, v, level, input).unwrap();
                    let m = build_symbol(v, level, mask, &d);
                    let dec = decode(&m).unwrap();
                    assert_eq!(dec.readout.version, v);
                    assert_eq!(dec.readout.level, level);
                    assert_eq!(dec.readout.mask, mask);
                    assert_eq!(dec.parsed.segments.len(), 1);
                    assert_eq!(dec.parsed.segments[0].bytes, input);
                    assert_eq!(dec.corrected, 0);
                    assert!(dec.readout.remainder.iter().all(|&b| !b));
                }
            }
        }
    }
}
