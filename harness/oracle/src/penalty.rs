//! The mask penalty fast_qr documents (src/score.rs `score` doc comment, property C11),
//! written as a plain scan that shares no code or table with the crate.
//!
//! "Encoding region" is the oracle's data region for the version (never the crate's labels).

use crate::decode::Matrix;
use crate::layout::region_map;

#[derive(Clone, Copy, Debug, Default, PartialEq, Eq)]
pub struct Terms {
    pub row_runs: u32,
    pub row_windows: u32,
    pub col_runs: u32,
    pub col_windows: u32,
    pub squares: u32,
    /// dark-ratio term when "5 % step" is evaluated on floor(100*dark/total)
    pub dark_floor: u32,
    /// dark-ratio term when the exact deviation |dark/total - 1/2| is cut into 5 % steps
    /// with an exact multiple belonging to the lower step (the other common reading)
    pub dark_exact: u32,
    pub dark_count: u32,
}

impl Terms {
    pub fn total_floor(&self) -> u32 {
        self.row_runs + self.row_windows + self.col_runs + self.col_windows + self.squares + self.dark_floor
    }
    pub fn total_exact(&self) -> u32 {
        self.row_runs + self.row_windows + self.col_runs + self.col_windows + self.squares + self.dark_exact
    }
    pub fn without_columns(&self) -> u32 {
        self.row_runs + self.row_windows + self.squares
    }
}

/// (run penalty, window penalty) of one line given (is_data, value) per module.
pub fn line_terms(line: &[(bool, bool)]) -> (u32, u32) {
    let mut runs = 0u32;
    let mut windows = 0u32;
    // maximal runs of equal consecutive data modules
    let mut i = 0;
    let n = line.len();
    while i < n {
        if !line[i].0 {
            i += 1;
            continue;
        }
        let v = line[i].1;
        let mut j = i;
        while j < n && line[j].0 && line[j].1 == v {
            j += 1;
        }
        let len = (j - i) as u32;
        if len >= 5 {
            runs += len - 2;
        }
        i = j;
    }
    // windows of seven consecutive data modules reading dark light dark dark dark light dark
    const PAT: [bool; 7] = [true, false, true, true, true, false, true];
    if n >= 7 {
        for s in 0..=n - 7 {
            if (0..7).all(|k| line[s + k].0 && line[s + k].1 == PAT[k]) {
                windows += 40;
            }
        }
    }
    (runs, windows)
}

pub fn dark_terms(dark: usize, total: usize) -> (u32, u32) {
    // reading 1: integer percentage, bands of five: 45..=54 -> 0, 40..=44 / 55..=59 -> 10 ...
    let p = dark * 100 / total;
    let k1 = if p >= 50 { (p - 50) / 5 } else { (49 - p) / 5 };
    // reading 2: exact deviation; k = ceil(|20*dark - 10*total| / total) - 1, min 0
    let dev = (20 * dark as i64 - 10 * total as i64).unsigned_abs() as usize;
    let k2 = if dev == 0 { 0 } else { (dev + total - 1) / total - 1 };
    (10 * k1 as u32, 10 * k2 as u32)
}

/// Penalty terms of a candidate matrix of the given version.
pub fn terms(m: &Matrix, version: usize) -> Terms {
    let map = region_map(version);
    let n = m.size;
    assert_eq!(n, map.size);
    let mut t = Terms::default();
    let mut line = Vec::with_capacity(n);
    for r in 0..n {
        line.clear();
        for c in 0..n {
            line.push((map.is_data(r, c), m.get(r, c)));
        }
        let (a, b) = line_terms(&line);
        t.row_runs += a;
        t.row_windows += b;
    }
    for c in 0..n {
        line.clear();
        for r in 0..n {
            line.push((map.is_data(r, c), m.get(r, c)));
        }
        let (a, b) = line_terms(&line);
        t.col_runs += a;
        t.col_windows += b;
    }
    for r in 0..n - 1 {
        for c in 0..n - 1 {
            if map.is_data(r, c) && map.is_data(r, c + 1) && map.is_data(r + 1, c) && map.is_data(r + 1, c + 1) {
                let v = m.get(r, c);
                if m.get(r, c + 1) == v && m.get(r + 1, c) == v && m.get(r + 1, c + 1) == v {
                    t.squares += 3;
                }
            }
        }
    }
    let dark = m.dark.iter().filter(|&&d| d).count();
    let (a, b) = dark_terms(dark, n * n);
    t.dark_floor = a;
    t.dark_exact = b;
    t.dark_count = dark as u32;
    t
}

/// Column run/window terms only (used to recognise known finding KF-C11-1).
pub fn column_terms(m: &Matrix, version: usize) -> (u32, u32) {
    let map = region_map(version);
    let n = m.size;
    let mut runs = 0;
    let mut wins = 0;
    let mut line = Vec::with_capacity(n);
    for c in 0..n {
        line.clear();
        for r in 0..n {
            line.push((map.is_data(r, c), m.get(r, c)));
        }
        let (a, b) = line_terms(&line);
        runs += a;
        wins += b;
    }
    (runs, wins)
}

#[cfg(test)]
mod tests {
    use super::*;
    #[test]
    fn lines() {
        let d = |s: &str| -> Vec<(bool, bool)> {
            s.chars()
                .map(|c| match c {
                    '1' => (true, true),
                    '0' => (true, false),
                    'X' => (false, true),
                    _ => (false, false),
                })
                .collect()
        };
        assert_eq!(line_terms(&d("11111")), (3, 0));
        assert_eq!(line_terms(&d("1111")), (0, 0));
        assert_eq!(line_terms(&d("111X11")), (0, 0));
        assert_eq!(line_terms(&d("0000000111111")), (5 + 4, 0));
        assert_eq!(line_terms(&d("1011101")), (0, 40));
        assert_eq!(line_terms(&d("101X1101")), (0, 0));
        assert_eq!(line_terms(&d("10111011011101")), (0, 80));
        assert_eq!(dark_terms(50, 100), (0, 0));
        assert_eq!(dark_terms(44, 100), (10, 10));
        assert_eq!(dark_terms(45, 100), (0, 0));
        assert_eq!(dark_terms(55, 100), (10, 0));
        assert_eq!(dark_terms(56, 100), (10, 10));
        assert_eq!(dark_terms(40, 100), (10, 10));
        assert_eq!(dark_terms(39, 100), (20, 20));
        assert_eq!(dark_terms(0, 100), (90, 90));
    }
}
