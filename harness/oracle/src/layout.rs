//! Symbol geometry from ISO/IEC 18004 clause 6.3 / 7.7 / 7.8 / 7.9 / 7.10 and Annex E:
//! which region every coordinate belongs to, the fixed value of function modules, the
//! placement order of codeword bits, the mask conditions, the positions of format and
//! version information bits.

use crate::tables;
use std::sync::OnceLock;

#[derive(Clone, Copy, Debug, PartialEq, Eq, Hash)]
pub enum Region {
    Data,
    Finder,
    Separator,
    Timing,
    Alignment,
    Format,
    Version,
    Dark,
}

impl Region {
    pub fn name(self) -> &'static str {
        match self {
            Region::Data => "Data",
            Region::Finder => "Finder",
            Region::Separator => "Separator",
            Region::Timing => "Timing",
            Region::Alignment => "Alignment",
            Region::Format => "Format",
            Region::Version => "Version",
            Region::Dark => "Dark",
        }
    }
}

pub struct RegionMap {
    pub version: usize,
    pub size: usize,
    /// row-major
    pub region: Vec<Region>,
    /// fixed value of the module if it is part of a fixed function pattern
    /// (finder, separator, timing, alignment, dark module); None for data, format, version.
    pub fixed: Vec<Option<bool>>,
    /// coordinates that belong to an alignment pattern AND lie on the timing row/column
    /// (ISO regions overlap there; both labels are legitimate, the values coincide).
    pub timing_overlap: Vec<bool>,
    /// data-region coordinates (row, col) in bit placement order
    pub zigzag: Vec<(usize, usize)>,
    /// number of alignment patterns drawn
    pub alignment_count: usize,
}

impl RegionMap {
    pub fn at(&self, r: usize, c: usize) -> Region {
        self.region[r * self.size + c]
    }
    pub fn is_data(&self, r: usize, c: usize) -> bool {
        self.region[r * self.size + c] == Region::Data
    }
    pub fn data_count(&self) -> usize {
        self.zigzag.len()
    }
}

fn build(v: usize) -> RegionMap {
    let n = tables::size(v);
    let mut region = vec![Region::Data; n * n];
    let mut fixed: Vec<Option<bool>> = vec![None; n * n];
    let mut timing_overlap = vec![false; n * n];
    let idx = |r: usize, c: usize| r * n + c;

    // timing patterns: row 6 and column 6 between the separators
    for i in 8..=n - 9 {
        let dark = i % 2 == 0;
        region[idx(6, i)] = Region::Timing;
        fixed[idx(6, i)] = Some(dark);
        region[idx(i, 6)] = Region::Timing;
        fixed[idx(i, 6)] = Some(dark);
    }

    // finder patterns + separators
    for &(r0, c0) in &[(0usize, 0usize), (0, n - 7), (n - 7, 0)] {
        for dr in 0..7 {
            for dc in 0..7 {
                let ring = dr.min(6 - dr).min(dc).min(6 - dc);
                // ring 0 dark, ring 1 light, ring 2,3 dark (3x3 core)
                let dark = ring != 1;
                region[idx(r0 + dr, c0 + dc)] = Region::Finder;
                fixed[idx(r0 + dr, c0 + dc)] = Some(dark);
            }
        }
    }
    for i in 0..8 {
        // top-left
        for &(r, c) in &[(7, i), (i, 7)] {
            region[idx(r, c)] = Region::Separator;
            fixed[idx(r, c)] = Some(false);
        }
        // top-right
        for &(r, c) in &[(7, n - 8 + i), (i, n - 8)] {
            region[idx(r, c)] = Region::Separator;
            fixed[idx(r, c)] = Some(false);
        }
        // bottom-left
        for &(r, c) in &[(n - 8, i), (n - 8 + i, 7)] {
            region[idx(r, c)] = Region::Separator;
            fixed[idx(r, c)] = Some(false);
        }
    }

    // alignment patterns (Annex E), skipping the three that would hit a finder
    let centres = tables::ALIGNMENT[v - 1];
    let mut alignment_count = 0;
    if !centres.is_empty() {
        let last = *centres.last().unwrap();
        for &r in centres {
            for &c in centres {
                if (r == 6 && c == 6) || (r == 6 && c == last) || (r == last && c == 6) {
                    continue;
                }
                alignment_count += 1;
                for dr in 0..5usize {
                    for dc in 0..5usize {
                        let rr = r + dr - 2;
                        let cc = c + dc - 2;
                        let ring = dr.min(4 - dr).min(dc).min(4 - dc);
                        let dark = ring != 1;
                        if region[idx(rr, cc)] == Region::Timing {
                            timing_overlap[idx(rr, cc)] = true;
                            assert_eq!(fixed[idx(rr, cc)], Some(dark), "timing/alignment agree");
                        } else {
                            assert_eq!(region[idx(rr, cc)], Region::Data, "alignment overlaps only timing");
                        }
                        region[idx(rr, cc)] = Region::Alignment;
                        fixed[idx(rr, cc)] = Some(dark);
                    }
                }
            }
        }
    }

    // format information
    for (a, b) in format_positions(n) {
        region[idx(a.0, a.1)] = Region::Format;
        fixed[idx(a.0, a.1)] = None;
        region[idx(b.0, b.1)] = Region::Format;
        fixed[idx(b.0, b.1)] = None;
    }
    // dark module
    region[idx(n - 8, 8)] = Region::Dark;
    fixed[idx(n - 8, 8)] = Some(true);

    // version information
    if v >= 7 {
        for (a, b) in version_positions(n) {
            assert_eq!(region[idx(a.0, a.1)], Region::Data);
            assert_eq!(region[idx(b.0, b.1)], Region::Data);
            region[idx(a.0, a.1)] = Region::Version;
            region[idx(b.0, b.1)] = Region::Version;
        }
    }

    // placement order (7.7.3): two-module-wide columns from the right, alternately upwards
    // and downwards, the vertical timing column is skipped
    let mut zigzag = Vec::new();
    let mut right = n as isize - 1;
    let mut upward = true;
    while right >= 1 {
        if right == 6 {
            right = 5;
        }
        for k in 0..n {
            let r = if upward { n - 1 - k } else { k };
            for dc in 0..2 {
                let c = (right - dc) as usize;
                if region[idx(r, c)] == Region::Data {
                    zigzag.push((r, c));
                }
            }
        }
        upward = !upward;
        right -= 2;
    }
    assert_eq!(zigzag.len(), tables::raw_modules(v), "data region size v{v}");

    RegionMap {
        version: v,
        size: n,
        region,
        fixed,
        timing_overlap,
        zigzag,
        alignment_count,
    }
}

static MAPS: OnceLock<Vec<RegionMap>> = OnceLock::new();

pub fn region_map(v: usize) -> &'static RegionMap {
    assert!((1..=40).contains(&v));
    &MAPS.get_or_init(|| (1..=40).map(build).collect())[v - 1]
}

/// For format bit k (0 = least significant) the two coordinates (row, col) that carry it:
/// index k of the returned vector is (copy near top-left finder, copy split between
/// top-right / bottom-left).
pub fn format_positions(n: usize) -> Vec<((usize, usize), (usize, usize))> {
    let mut v = Vec::with_capacity(15);
    for k in 0..15usize {
        let a = match k {
            0..=5 => (k, 8),
            6 => (7, 8),
            7 => (8, 8),
            8 => (8, 7),
            _ => (8, 14 - k),
        };
        let b = if k <= 7 { (8, n - 1 - k) } else { (n - 15 + k, 8) };
        v.push((a, b));
    }
    v
}

/// For version bit k (0 = least significant): (top-right block coordinate, bottom-left block
/// coordinate).
pub fn version_positions(n: usize) -> Vec<((usize, usize), (usize, usize))> {
    (0..18usize)
        .map(|k| ((k / 3, n - 11 + k % 3), (n - 11 + k % 3, k / 3)))
        .collect()
}

/// ISO Table 10 mask conditions, i = row, j = column; true = invert the module.
pub fn mask_bit(mask: usize, i: usize, j: usize) -> bool {
    match mask {
        0 => (i + j) % 2 == 0,
        1 => i % 2 == 0,
        2 => j % 3 == 0,
        3 => (i + j) % 3 == 0,
        4 => (i / 2 + j / 3) % 2 == 0,
        5 => (i * j) % 2 + (i * j) % 3 == 0,
        6 => ((i * j) % 2 + (i * j) % 3) % 2 == 0,
        7 => ((i + j) % 2 + (i * j) % 3) % 2 == 0,
        _ => panic!("mask number"),
    }
}

#[cfg(test)]
mod tests {
    use super::*;

    #[test]
    fn maps_build_and_count() {
        for v in 1..=40 {
            let m = region_map(v);
            assert_eq!(m.size, 17 + 4 * v);
            assert_eq!(m.data_count(), 8 * tables::total_codewords(v) + tables::remainder_bits(v));
            let fmt = m.region.iter().filter(|&&r| r == Region::Format).count();
            assert_eq!(fmt, 30);
            let ver = m.region.iter().filter(|&&r| r == Region::Version).count();
            assert_eq!(ver, if v >= 7 { 36 } else { 0 });
            let na = tables::ALIGNMENT[v - 1].len();
            assert_eq!(m.alignment_count, if na == 0 { 0 } else { na * na - 3 });
        }
    }
}
