//! A small PNG reader written for the C13 / C19 monitors: chunk walk with CRC-32 check, zlib
//! inflate (miniz_oxide), scanline un-filtering. 8-bit, non-interlaced, colour types 0/2/4/6.
//! Returns straight (non-premultiplied) RGBA.

pub struct Image {
    pub width: usize,
    pub height: usize,
    pub rgba: Vec<u8>,
    pub colour_type: u8,
    pub chunks: Vec<String>,
}

impl Image {
    pub fn pixel(&self, x: usize, y: usize) -> [u8; 4] {
        let i = (y * self.width + x) * 4;
        [self.rgba[i], self.rgba[i + 1], self.rgba[i + 2], self.rgba[i + 3]]
    }
}

pub fn crc32(bytes: &[u8]) -> u32 {
    let mut crc = 0xFFFF_FFFFu32;
    for &b in bytes {
        crc ^= b as u32;
        for _ in 0..8 {
            crc = if crc & 1 != 0 { (crc >> 1) ^ 0xEDB8_8320 } else { crc >> 1 };
        }
    }
    !crc
}

fn paeth(a: i32, b: i32, c: i32) -> i32 {
    let p = a + b - c;
    let pa = (p - a).abs();
    let pb = (p - b).abs();
    let pc = (p - c).abs();
    if pa <= pb && pa <= pc {
        a
    } else if pb <= pc {
        b
    } else {
        c
    }
}

pub fn decode(bytes: &[u8]) -> Result<Image, String> {
    const SIG: [u8; 8] = [0x89, b'P', b'N', b'G', 0x0D, 0x0A, 0x1A, 0x0A];
    if bytes.len() < 8 || bytes[..8] != SIG {
        return Err("missing PNG signature".into());
    }
    let mut pos = 8;
    let mut ihdr: Option<(usize, usize, u8, u8, u8)> = None;
    let mut idat = Vec::new();
    let mut chunks = Vec::new();
    let mut seen_end = false;
    while pos < bytes.len() {
        if seen_end {
            return Err("data after IEND".into());
        }
        if pos + 12 > bytes.len() {
            return Err("truncated chunk header".into());
        }
        let len = u32::from_be_bytes(bytes[pos..pos + 4].try_into().unwrap()) as usize;
        if pos + 12 + len > bytes.len() {
            return Err("truncated chunk".into());
        }
        let ty = &bytes[pos + 4..pos + 8];
        let data = &bytes[pos + 8..pos + 8 + len];
        let crc = u32::from_be_bytes(bytes[pos + 8 + len..pos + 12 + len].try_into().unwrap());
        if crc32(&bytes[pos + 4..pos + 8 + len]) != crc {
            return Err(format!("bad CRC in chunk {}", String::from_utf8_lossy(ty)));
        }
        chunks.push(String::from_utf8_lossy(ty).to_string());
        match ty {
            b"IHDR" => {
                if len != 13 {
                    return Err("bad IHDR".into());
                }
                let w = u32::from_be_bytes(data[0..4].try_into().unwrap()) as usize;
                let h = u32::from_be_bytes(data[4..8].try_into().unwrap()) as usize;
                ihdr = Some((w, h, data[8], data[9], data[12]));
                if data[10] != 0 || data[11] != 0 {
                    return Err("unknown compression/filter method".into());
                }
            }
            b"IDAT" => idat.extend_from_slice(data),
            b"IEND" => seen_end = true,
            _ => {}
        }
        pos += 12 + len;
    }
    if !seen_end {
        return Err("no IEND".into());
    }
    let (w, h, depth, ct, interlace) = ihdr.ok_or("no IHDR")?;
    if depth != 8 || interlace != 0 {
        return Err(format!("unsupported depth {depth} / interlace {interlace}"));
    }
    let channels = match ct {
        0 => 1,
        2 => 3,
        4 => 2,
        6 => 4,
        _ => return Err(format!("unsupported colour type {ct}")),
    };
    let raw = miniz_oxide::inflate::decompress_to_vec_zlib(&idat).map_err(|e| format!("inflate: {e:?}"))?;
    let stride = w * channels;
    if raw.len() != (stride + 1) * h {
        return Err(format!("inflated size {} != {}", raw.len(), (stride + 1) * h));
    }
    let mut img = vec![0u8; stride * h];
    for y in 0..h {
        let ft = raw[y * (stride + 1)];
        let line = &raw[y * (stride + 1) + 1..(y + 1) * (stride + 1)];
        for x in 0..stride {
            let a = if x >= channels { img[y * stride + x - channels] as i32 } else { 0 };
            let b = if y > 0 { img[(y - 1) * stride + x] as i32 } else { 0 };
            let c = if y > 0 && x >= channels { img[(y - 1) * stride + x - channels] as i32 } else { 0 };
            let pred = match ft {
                0 => 0,
                1 => a,
                2 => b,
                3 => (a + b) / 2,
                4 => paeth(a, b, c),
                _ => return Err(format!("bad filter type {ft}")),
            };
            img[y * stride + x] = (line[x] as i32 + pred) as u8;
        }
    }
    let mut rgba = Vec::with_capacity(w * h * 4);
    for px in img.chunks(channels) {
        match ct {
            0 => rgba.extend_from_slice(&[px[0], px[0], px[0], 255]),
            2 => rgba.extend_from_slice(&[px[0], px[1], px[2], 255]),
            4 => rgba.extend_from_slice(&[px[0], px[0], px[0], px[1]]),
            _ => rgba.extend_from_slice(px),
        }
    }
    Ok(Image { width: w, height: h, rgba, colour_type: ct, chunks })
}

#[cfg(test)]
mod tests {
    use super::*;
    #[test]
    fn crc_known() {
        assert_eq!(crc32(b"IEND"), 0xAE42_6082);
        assert_eq!(crc32(b"123456789"), 0xCBF4_3926);
    }
}
