//! BCH(15,5) format information and BCH(18,6) version information (ISO/IEC 18004 Annex C, D).

/// level index (L=0, M=1, Q=2, H=3) -> the two level bits of the format information.
pub fn level_bits(level: usize) -> u32 {
    [0b01, 0b00, 0b11, 0b10][level]
}

pub fn level_from_bits(bits: u32) -> usize {
    match bits & 3 {
        0b01 => 0,
        0b00 => 1,
        0b11 => 2,
        _ => 3,
    }
}

fn bch_remainder(mut value: u32, total_bits: u32, gen: u32, gen_bits: u32) -> u32 {
    // value already shifted left by (gen_bits-1)
    let mut bit = total_bits;
    while bit >= gen_bits {
        if value & (1 << (bit - 1)) != 0 {
            value ^= gen << (bit - gen_bits);
        }
        bit -= 1;
    }
    value
}

/// 15-bit format information word for (level, mask), already XORed with 101010000010010.
pub fn format_word(level: usize, mask: usize) -> u32 {
    let data = (level_bits(level) << 3) | mask as u32;
    let rem = bch_remainder(data << 10, 15, 0x537, 11);
    ((data << 10) | rem) ^ 0x5412
}

/// 18-bit version information word for versions 7..=40.
pub fn version_word(version: usize) -> u32 {
    let data = version as u32;
    let rem = bch_remainder(data << 12, 18, 0x1F25, 13);
    (data << 12) | rem
}

/// Closest valid format word (hamming distance) -> (level, mask, distance)
pub fn decode_format(word: u32) -> (usize, usize, u32) {
    let mut best = (0, 0, u32::MAX);
    for level in 0..4 {
        for mask in 0..8 {
            let d = (format_word(level, mask) ^ word).count_ones();
            if d < best.2 {
                best = (level, mask, d);
            }
        }
    }
    best
}

#[cfg(test)]
mod tests {
    use super::*;
    #[test]
    fn known_words() {
        // ISO Annex C example: M, mask 5 -> 100000011001110
        assert_eq!(format_word(1, 5), 0b100000011001110);
        // Annex I: M mask 2? (commonly quoted) 101111001111100
        assert_eq!(format_word(1, 2), 0b101111001111100);
        // L mask 0 = 111011111000100
        assert_eq!(format_word(0, 0), 0b111011111000100);
        // Annex D: version 7 -> 000111110010010100
        assert_eq!(version_word(7), 0b000111110010010100);
        assert_eq!(version_word(40), 0b101000110001101001);
        // minimum distance properties
        let mut words = vec![];
        for l in 0..4 { for m in 0..8 { words.push(format_word(l, m)); } }
        for a in 0..32 { for b in 0..a { assert!((words[a] ^ words[b]).count_ones() >= 7); } }
    }
}
