//! Minimal SVG path-data interpreter (M m L l H h V v A a Z z, implicit repeats) that
//! returns the bounding box of every sub-path. Independent of fast_qr's string templates.

#[derive(Clone, Debug)]
pub struct SubPath {
    pub start: (f64, f64),
    pub min: (f64, f64),
    pub max: (f64, f64),
    pub segments: usize,
    pub closed: bool,
}

impl SubPath {
    fn new(p: (f64, f64)) -> Self {
        SubPath { start: p, min: p, max: p, segments: 0, closed: false }
    }
    fn add(&mut self, p: (f64, f64)) {
        self.min.0 = self.min.0.min(p.0);
        self.min.1 = self.min.1.min(p.1);
        self.max.0 = self.max.0.max(p.0);
        self.max.1 = self.max.1.max(p.1);
    }
    pub fn width(&self) -> f64 {
        self.max.0 - self.min.0
    }
    pub fn height(&self) -> f64 {
        self.max.1 - self.min.1
    }
    pub fn centre(&self) -> (f64, f64) {
        ((self.min.0 + self.max.0) / 2.0, (self.min.1 + self.max.1) / 2.0)
    }
}

struct Lexer<'a> {
    s: &'a [u8],
    i: usize,
}

impl<'a> Lexer<'a> {
    fn skip_sep(&mut self) {
        while self.i < self.s.len() && (self.s[self.i].is_ascii_whitespace() || self.s[self.i] == b',') {
            self.i += 1;
        }
    }
    fn peek_cmd(&mut self) -> Option<u8> {
        self.skip_sep();
        if self.i < self.s.len() && self.s[self.i].is_ascii_alphabetic() && self.s[self.i] != b'e' && self.s[self.i] != b'E' {
            Some(self.s[self.i])
        } else {
            None
        }
    }
    fn at_end(&mut self) -> bool {
        self.skip_sep();
        self.i >= self.s.len()
    }
    fn number(&mut self) -> Result<f64, String> {
        self.skip_sep();
        let st = self.i;
        let s = self.s;
        let mut i = self.i;
        if i < s.len() && (s[i] == b'-' || s[i] == b'+') {
            i += 1;
        }
        let mut digits = 0;
        while i < s.len() && s[i].is_ascii_digit() {
            i += 1;
            digits += 1;
        }
        if i < s.len() && s[i] == b'.' {
            i += 1;
            while i < s.len() && s[i].is_ascii_digit() {
                i += 1;
                digits += 1;
            }
        }
        if digits == 0 {
            return Err(format!("number expected at offset {st}"));
        }
        if i < s.len() && (s[i] == b'e' || s[i] == b'E') {
            let mut j = i + 1;
            if j < s.len() && (s[j] == b'-' || s[j] == b'+') {
                j += 1;
            }
            if j < s.len() && s[j].is_ascii_digit() {
                while j < s.len() && s[j].is_ascii_digit() {
                    j += 1;
                }
                i = j;
            }
        }
        self.i = i;
        std::str::from_utf8(&s[st..i]).unwrap().parse::<f64>().map_err(|e| format!("bad number at {st}: {e}"))
    }
    fn flag(&mut self) -> Result<bool, String> {
        self.skip_sep();
        if self.i < self.s.len() && (self.s[self.i] == b'0' || self.s[self.i] == b'1') {
            let v = self.s[self.i] == b'1';
            self.i += 1;
            Ok(v)
        } else {
            Err(format!("arc flag expected at offset {}", self.i))
        }
    }
}

/// Points along an SVG elliptical arc (endpoint parameterisation, SVG 1.1 F.6.5).
fn arc_points(p0: (f64, f64), rx: f64, ry: f64, phi_deg: f64, large: bool, sweep: bool, p1: (f64, f64)) -> Vec<(f64, f64)> {
    let mut rx = rx.abs();
    let mut ry = ry.abs();
    if rx == 0.0 || ry == 0.0 || p0 == p1 {
        return vec![p1];
    }
    let phi = phi_deg.to_radians();
    let (sp, cp) = phi.sin_cos();
    let dx = (p0.0 - p1.0) / 2.0;
    let dy = (p0.1 - p1.1) / 2.0;
    let x1 = cp * dx + sp * dy;
    let y1 = -sp * dx + cp * dy;
    let lam = x1 * x1 / (rx * rx) + y1 * y1 / (ry * ry);
    if lam > 1.0 {
        rx *= lam.sqrt();
        ry *= lam.sqrt();
    }
    let num = rx * rx * ry * ry - rx * rx * y1 * y1 - ry * ry * x1 * x1;
    let den = rx * rx * y1 * y1 + ry * ry * x1 * x1;
    let mut co = (num.max(0.0) / den).sqrt();
    if large == sweep {
        co = -co;
    }
    let cxp = co * rx * y1 / ry;
    let cyp = -co * ry * x1 / rx;
    let cx = cp * cxp - sp * cyp + (p0.0 + p1.0) / 2.0;
    let cy = sp * cxp + cp * cyp + (p0.1 + p1.1) / 2.0;
    let ang = |ux: f64, uy: f64, vx: f64, vy: f64| -> f64 {
        let d = (ux * ux + uy * uy).sqrt() * (vx * vx + vy * vy).sqrt();
        let mut a = ((ux * vx + uy * vy) / d).clamp(-1.0, 1.0).acos();
        if ux * vy - uy * vx < 0.0 {
            a = -a;
        }
        a
    };
    let t1 = ang(1.0, 0.0, (x1 - cxp) / rx, (y1 - cyp) / ry);
    let mut dt = ang((x1 - cxp) / rx, (y1 - cyp) / ry, (-x1 - cxp) / rx, (-y1 - cyp) / ry);
    if !sweep && dt > 0.0 {
        dt -= 2.0 * std::f64::consts::PI;
    } else if sweep && dt < 0.0 {
        dt += 2.0 * std::f64::consts::PI;
    }
    let steps = 512;
    let mut pts = Vec::with_capacity(steps + 1);
    for k in 1..=steps {
        let t = t1 + dt * (k as f64) / (steps as f64);
        let (st, ct) = t.sin_cos();
        pts.push((cx + rx * ct * cp - ry * st * sp, cy + rx * ct * sp + ry * st * cp));
    }
    pts.push(p1);
    pts
}

pub fn subpaths(d: &str) -> Result<Vec<SubPath>, String> {
    let mut lx = Lexer { s: d.as_bytes(), i: 0 };
    let mut out: Vec<SubPath> = Vec::new();
    let mut cur = (0.0f64, 0.0f64);
    let mut start = (0.0f64, 0.0f64);
    let mut open = false;
    if lx.at_end() {
        return Ok(out);
    }
    let mut cmd = match lx.peek_cmd() {
        Some(c) if c == b'M' || c == b'm' => c,
        _ => return Err("path data must start with a moveto".into()),
    };
    lx.i += 1;
    loop {
        match cmd {
            b'M' | b'm' => {
                let x = lx.number()?;
                let y = lx.number()?;
                cur = if cmd == b'm' { (cur.0 + x, cur.1 + y) } else { (x, y) };
                start = cur;
                out.push(SubPath::new(cur));
                open = true;
                // subsequent pairs are implicit lineto
                cmd = if cmd == b'm' { b'l' } else { b'L' };
            }
            b'L' | b'l' | b'H' | b'h' | b'V' | b'v' | b'A' | b'a' => {
                if !open {
                    // drawing after a closepath starts a new sub-path at the old start
                    out.push(SubPath::new(cur));
                    open = true;
                }
                let sp = out.last_mut().unwrap();
                match cmd {
                    b'L' | b'l' => {
                        let x = lx.number()?;
                        let y = lx.number()?;
                        cur = if cmd == b'l' { (cur.0 + x, cur.1 + y) } else { (x, y) };
                        sp.add(cur);
                    }
                    b'H' | b'h' => {
                        let x = lx.number()?;
                        cur.0 = if cmd == b'h' { cur.0 + x } else { x };
                        sp.add(cur);
                    }
                    b'V' | b'v' => {
                        let y = lx.number()?;
                        cur.1 = if cmd == b'v' { cur.1 + y } else { y };
                        sp.add(cur);
                    }
                    _ => {
                        let rx = lx.number()?;
                        let ry = lx.number()?;
                        let rot = lx.number()?;
                        let large = lx.flag()?;
                        let sweep = lx.flag()?;
                        let x = lx.number()?;
                        let y = lx.number()?;
                        let end = if cmd == b'a' { (cur.0 + x, cur.1 + y) } else { (x, y) };
                        for p in arc_points(cur, rx, ry, rot, large, sweep, end) {
                            sp.add(p);
                        }
                        cur = end;
                    }
                }
                sp.segments += 1;
            }
            b'Z' | b'z' => {
                if let Some(sp) = out.last_mut() {
                    sp.closed = true;
                }
                cur = start;
                open = false;
            }
            other => return Err(format!("unsupported path command '{}'", other as char)),
        }
        if lx.at_end() {
            break;
        }
        if let Some(c) = lx.peek_cmd() {
            cmd = c;
            lx.i += 1;
        } else if cmd == b'Z' || cmd == b'z' {
            return Err(format!("number after closepath at offset {}", lx.i));
        }
        // else: implicit repetition of the same command
    }
    Ok(out)
}

#[cfg(test)]
mod tests {
    use super::*;
    #[test]
    fn shapes() {
        let sp = subpaths("M4,4h1v1h-1M5,6h1v1h-1").unwrap();
        assert_eq!(sp.len(), 2);
        assert_eq!((sp[0].min, sp[0].max), ((4.0, 4.0), (5.0, 5.0)));
        assert_eq!((sp[1].min, sp[1].max), ((5.0, 6.0), (6.0, 7.0)));
        let sp = subpaths("M5,4.5a.5,.5 0 1,1 0,-.1").unwrap();
        assert_eq!(sp.len(), 1);
        assert!((sp[0].min.0 - 4.0025).abs() < 1e-3, "{:?}", sp[0]);
        assert!((sp[0].max.0 - 5.0).abs() < 1e-3); // the rightmost point lies in the gap of the arc
        assert!((sp[0].min.1 - 3.95).abs() < 1e-3);
        assert!((sp[0].max.1 - 4.95).abs() < 1e-3);
        let sp = subpaths("M4.2,4.2 4.8,4.2 4.8,4.8 4.2,4.8z").unwrap();
        assert_eq!(sp.len(), 1);
        assert!(sp[0].closed);
        assert!((sp[0].width() - 0.6).abs() < 1e-9);
        let sp = subpaths("M4.5,4l.5,.5l-.5,.5l-.5,-.5z").unwrap();
        assert_eq!((sp[0].min, sp[0].max), ((4.0, 4.0), (5.0, 5.0)));
        assert!(subpaths("h1").is_err());
        assert!(subpaths("M1,1q1,1").is_err());
    }
}
