//! ISO/IEC 18004 7.4: the bit stream of one segment plus terminator and padding (strict
//! encoder), and a segment parser for decoding.

use crate::tables::{self, ALNUM, BYTE, NUMERIC};

#[derive(Default, Clone)]
pub struct BitVec {
    pub bits: Vec<bool>,
}

impl BitVec {
    pub fn push(&mut self, value: usize, width: usize) {
        for k in (0..width).rev() {
            self.bits.push((value >> k) & 1 == 1);
        }
    }
    pub fn len(&self) -> usize {
        self.bits.len()
    }
    pub fn is_empty(&self) -> bool {
        self.bits.is_empty()
    }
    pub fn to_bytes(&self) -> Vec<u8> {
        let mut out = vec![0u8; (self.bits.len() + 7) / 8];
        for (i, &b) in self.bits.iter().enumerate() {
            if b {
                out[i / 8] |= 0x80 >> (i % 8);
            }
        }
        out
    }
    pub fn from_bytes(bytes: &[u8]) -> Self {
        let mut bits = Vec::with_capacity(bytes.len() * 8);
        for &b in bytes {
            for k in (0..8).rev() {
                bits.push((b >> k) & 1 == 1);
            }
        }
        BitVec { bits }
    }
}

pub fn mode_indicator(mode: usize) -> usize {
    match mode {
        NUMERIC => 0b0001,
        ALNUM => 0b0010,
        BYTE => 0b0100,
        _ => panic!("mode"),
    }
}

/// Bits of the segment alone: mode indicator, character count, data.
pub fn segment_bits(mode: usize, version: usize, input: &[u8]) -> Result<BitVec, String> {
    let mut b = BitVec::default();
    let cci = tables::cci_bits(version, mode);
    if input.len() >= 1 << cci {
        return Err(format!("count {} does not fit {} bits", input.len(), cci));
    }
    b.push(mode_indicator(mode), 4);
    b.push(input.len(), cci);
    match mode {
        NUMERIC => {
            for chunk in input.chunks(3) {
                let mut v = 0usize;
                for &c in chunk {
                    if !c.is_ascii_digit() {
                        return Err(format!("byte {c:#x} is not a digit"));
                    }
                    v = v * 10 + (c - b'0') as usize;
                }
                b.push(v, [0, 4, 7, 10][chunk.len()]);
            }
        }
        ALNUM => {
            for chunk in input.chunks(2) {
                let a = tables::alnum_value(chunk[0])
                    .ok_or_else(|| format!("byte {:#x} not alphanumeric", chunk[0]))?;
                if chunk.len() == 2 {
                    let c = tables::alnum_value(chunk[1])
                        .ok_or_else(|| format!("byte {:#x} not alphanumeric", chunk[1]))?;
                    b.push(a * 45 + c, 11);
                } else {
                    b.push(a, 6);
                }
            }
        }
        BYTE => {
            for &c in input {
                b.push(c as usize, 8);
            }
        }
        _ => panic!("mode"),
    }
    Ok(b)
}

/// The full data codeword sequence for a single-segment symbol: segment, terminator of
/// min(4, remaining) zero bits, zero bits to the byte boundary, pad codewords 0xEC, 0x11
/// alternating up to exactly the data capacity.
pub fn data_codewords(
    mode: usize,
    version: usize,
    level: usize,
    input: &[u8],
) -> Result<Vec<u8>, String> {
    let capacity_bits = 8 * tables::layout(version, level).data_codewords;
    let mut b = segment_bits(mode, version, input)?;
    if b.len() > capacity_bits {
        return Err(format!(
            "segment needs {} bits, version {} level {} holds {}",
            b.len(),
            version,
            tables::LEVEL_NAMES[level],
            capacity_bits
        ));
    }
    let term = (capacity_bits - b.len()).min(4);
    b.push(0, term);
    while b.len() % 8 != 0 {
        b.push(0, 1);
    }
    let mut bytes = b.to_bytes();
    let mut pad = 0xECu8;
    while bytes.len() < capacity_bits / 8 {
        bytes.push(pad);
        pad = if pad == 0xEC { 0x11 } else { 0xEC };
    }
    assert_eq!(bytes.len(), capacity_bits / 8);
    Ok(bytes)
}

#[derive(Clone, Debug, PartialEq, Eq)]
pub struct Segment {
    pub mode: usize,
    pub bytes: Vec<u8>,
}

#[derive(Clone, Debug)]
pub struct Parsed {
    pub segments: Vec<Segment>,
    /// bits consumed by segments (not counting terminator)
    pub bits_used: usize,
    /// explicit 0000 terminator seen (false: stream ended with < 4 bits left)
    pub terminated: bool,
}

struct Reader<'a> {
    bits: &'a [bool],
    pos: usize,
}

impl<'a> Reader<'a> {
    fn left(&self) -> usize {
        self.bits.len() - self.pos
    }
    fn take(&mut self, w: usize) -> Option<usize> {
        if self.left() < w {
            return None;
        }
        let mut v = 0usize;
        for _ in 0..w {
            v = (v << 1) | self.bits[self.pos] as usize;
            self.pos += 1;
        }
        Some(v)
    }
}

/// Reference segment parsing (ISO 7.4 read backwards): read segments until a terminator
/// or until fewer than 4 bits remain. Anything after the terminator is ignored.
pub fn parse(data_codewords: &[u8], version: usize) -> Result<Parsed, String> {
    let bv = BitVec::from_bytes(data_codewords);
    let mut r = Reader { bits: &bv.bits, pos: 0 };
    let mut segments = Vec::new();
    loop {
        if r.left() < 4 {
            return Ok(Parsed { segments, bits_used: r.pos, terminated: false });
        }
        let start = r.pos;
        let ind = r.take(4).unwrap();
        let mode = match ind {
            0b0000 => {
                return Ok(Parsed { segments, bits_used: start, terminated: true });
            }
            0b0001 => NUMERIC,
            0b0010 => ALNUM,
            0b0100 => BYTE,
            other => return Err(format!("unsupported mode indicator {other:04b} at bit {start}")),
        };
        let cci = tables::cci_bits(version, mode);
        let count = r
            .take(cci)
            .ok_or_else(|| "character count runs past the data codewords".to_string())?;
        let mut bytes = Vec::with_capacity(count);
        match mode {
            NUMERIC => {
                let mut left = count;
                while left > 0 {
                    let k = left.min(3);
                    let w = [0, 4, 7, 10][k];
                    let v = r.take(w).ok_or_else(|| "numeric data truncated".to_string())?;
                    let lim = [1, 10, 100, 1000][k];
                    if v >= lim {
                        return Err(format!("numeric group value {v} out of range for {k} digits"));
                    }
                    let s = format!("{:0width$}", v, width = k);
                    bytes.extend_from_slice(s.as_bytes());
                    left -= k;
                }
            }
            ALNUM => {
                let mut left = count;
                while left > 0 {
                    if left >= 2 {
                        let v = r.take(11).ok_or_else(|| "alnum data truncated".to_string())?;
                        if v >= 45 * 45 {
                            return Err(format!("alphanumeric pair value {v} out of range"));
                        }
                        bytes.push(tables::alnum_char(v / 45));
                        bytes.push(tables::alnum_char(v % 45));
                        left -= 2;
                    } else {
                        let v = r.take(6).ok_or_else(|| "alnum data truncated".to_string())?;
                        if v >= 45 {
                            return Err(format!("alphanumeric value {v} out of range"));
                        }
                        bytes.push(tables::alnum_char(v));
                        left -= 1;
                    }
                }
            }
            _ => {
                for _ in 0..count {
                    let v = r.take(8).ok_or_else(|| "byte data truncated".to_string())?;
                    bytes.push(v as u8);
                }
            }
        }
        segments.push(Segment { mode, bytes });
    }
}

#[cfg(test)]
mod tests {
    use super::*;
    use crate::tables::M;

    #[test]
    fn annex_i() {
        let d = data_codewords(NUMERIC, 1, M, b"01234567").unwrap();
        assert_eq!(
            d,
            vec![
                0x10, 0x20, 0x0C, 0x56, 0x61, 0x80, 0xEC, 0x11, 0xEC, 0x11, 0xEC, 0x11, 0xEC, 0x11,
                0xEC, 0x11
            ]
        );
        let p = parse(&d, 1).unwrap();
        assert_eq!(p.segments, vec![Segment { mode: NUMERIC, bytes: b"01234567".to_vec() }]);
        assert!(p.terminated);
    }

    #[test]
    fn alnum_example() {
        // ISO 7.4.4 example "AC-42": 00100000 00101001 11001110 11100111 00100001 0
        let b = segment_bits(ALNUM, 1, b"AC-42").unwrap();
        let s: String = b.bits.iter().map(|&x| if x { '1' } else { '0' }).collect();
        assert_eq!(s, "00100000001010011100111011100111001000010");
    }

    #[test]
    fn roundtrip_all_modes() {
        for v in [1usize, 9, 10, 26, 27, 40] {
            for (mode, input) in [
                (NUMERIC, &b"0012345678901"[..]),
                (ALNUM, &b"HELLO WORLD $%*+-./:"[..]),
                (BYTE, &b"\x00\xff\x40hello"[..]),
                (BYTE, &b""[..]),
                (NUMERIC, &b""[..]),
            ] {
                let d = data_codewords(mode, v, 0, input).unwrap();
                let p = parse(&d, v).unwrap();
                assert_eq!(p.segments.len(), 1);
                assert_eq!(p.segments[0].mode, mode);
                assert_eq!(p.segments[0].bytes, input);
            }
        }
    }
}
